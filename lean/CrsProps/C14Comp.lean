/-
  C14, composition of the five marker patterns on header lines.

  The per-pattern laws of C14.lean say that for each marker pattern on its own the last invocation wins. `stepLine` applies
  all five patterns to every line. For the header line (`# OWASP CRS ver.X` / `# OWASP ModSecurity Core Rule Set ver.X`)
  the composition is settled here: the first pattern rewrites the whole line to `PREFIX ++ version`, an accepted version
  carries none of the characters the other four patterns need (`=`, `'`) and the line begins like none of them, so the
  other four leave it alone — `stepLine_header` — and the last invocation wins for the whole step — `C14_header_line_composed`.
  (Lines that carry several *different* markers — a SecAction with `ver:'OWASP_CRS/…'` and `setvar:tx.crs_setup_version=…` —
  remain covered by the correspondence and the sequence oracle only.)
-/
import CrsProps.C14

namespace Crs.Props
open Crs Crs.Copyright

theorem verOk_noEq (v : Bytes) (h : VersionOk v) : '=' ∉ v := by
  intro hm; have := h.2 '=' hm; simp [isVerCh, isLower, isUpper, isDigit] at this

theorem verOk_noQuote (v : Bytes) (h : VersionOk v) : '\'' ∉ v := by
  intro hm; have := h.2 '\'' hm; simp [isVerCh, isLower, isUpper, isDigit] at this

/-- the two header prefixes -/
def IsHeaderPrefix (P : Bytes) : Prop := P = p1a ∨ P = p1b

theorem headerPrefix_noEq (P : Bytes) (h : IsHeaderPrefix P) : '=' ∉ P ∧ '\'' ∉ P := by
  rcases h with rfl | rfl <;> exact ⟨by decide, by decide⟩

/-- on `PREFIX ++ version` the other four patterns do nothing -/
theorem others_leave_header (P v y : Bytes) (hP : IsHeaderPrefix P) (hv : VersionOk v) :
    sub5 v (sub4 v (sub3 y (sub2 (digitsOf v) (P ++ v)))) = P ++ v := by
  have hne : '=' ∉ P ++ v := by
    intro hm; rcases List.mem_append.mp hm with h | h
    · exact (headerPrefix_noEq P hP).1 h
    · exact verOk_noEq v hv h
  have hnq : '\'' ∉ P ++ v := by
    intro hm; rcases List.mem_append.mp hm with h | h
    · exact (headerPrefix_noEq P hP).2 h
    · exact verOk_noQuote v hv h
  have h2 : sub2 (digitsOf v) (P ++ v) = P ++ v := by
    unfold sub2
    rw [splitCh_noSep '=' _ hne]
    simp [sub2Fields, joinCh]
  have h3 : sub3 y (P ++ v) = P ++ v := by
    unfold sub3
    have : stripPrefix? p3 (P ++ v) = none := by
      rcases hP with rfl | rfl <;> simp [p3, p1a, p1b, stripPrefix?]
    rw [this]
  have h4 : sub4 v (P ++ v) = P ++ v := by
    unfold sub4
    rw [splitCh_noSep '\'' _ hnq]
    simp [sub4Fields, joinCh]
  have h5 : sub5 v (P ++ v) = P ++ v := by
    unfold sub5
    have : stripPrefix? p5 (P ++ v) = none := by
      rcases hP with rfl | rfl <;> simp [p5, p1a, p1b, stripPrefix?]
    rw [this]
  rw [h2, h3, h4, h5]

theorem sub1_header (P v r : Bytes) (hP : IsHeaderPrefix P) (hr : r ≠ []) : sub1 v (P ++ r) = P ++ v := by
  cases r with
  | nil => exact absurd rfl hr
  | cons c cs =>
    rcases hP with rfl | rfl
    · unfold sub1; rw [stripPrefix?_append]
    · unfold sub1
      have : stripPrefix? p1a (p1b ++ c :: cs) = none := by simp [p1a, p1b, stripPrefix?]
      rw [this, stripPrefix?_append]

/-- **C14 (header line, all five patterns).** One step of update-copyright turns a header line into `PREFIX ++ version`. -/
theorem stepLine_header (P v y r : Bytes) (hP : IsHeaderPrefix P) (hv : VersionOk v) (hr : r ≠ []) :
    stepLine v y (P ++ r) = P ++ v := by
  unfold stepLine
  rw [sub1_header P v r hP hr]
  exact others_leave_header P v y hP hv

/-- **C14 (header line: the last invocation wins, for the composed step).** -/
theorem C14_header_line_composed (P v1 y1 v2 y2 r : Bytes) (hP : IsHeaderPrefix P) (h1 : VersionOk v1) (h2 : VersionOk v2)
    (hr : r ≠ []) :
    stepLine v2 y2 (stepLine v1 y1 (P ++ r)) = stepLine v2 y2 (P ++ r) := by
  rw [stepLine_header P v1 y1 r hP h1 hr, stepLine_header P v2 y2 r hP h2 hr, stepLine_header P v2 y2 v1 hP h2 h1.1]

/-- non-vacuity -/
example : stepLine b!"4.8.0-rc1" b!"2031" b!"# OWASP CRS ver.4.0.0" = b!"# OWASP CRS ver.4.8.0-rc1" := by decide +kernel

end Crs.Props

namespace Crs.Props
open Crs Crs.Copyright

/-! ### the SecComponentSignature line -/

theorem takeDrop_run (x q : Bytes) (hx : ∀ c ∈ x, (c != '"') = true) (hq : q = [] ∨ q.head? = some '"') :
    (x ++ q).takeWhile (· != '"') = x ∧ (x ++ q).dropWhile (· != '"') = q := by
  induction x with
  | nil =>
    rcases hq with rfl | hq
    · simp
    · cases q with
      | nil => simp
      | cons a as =>
        simp only [List.head?_cons, Option.some.injEq] at hq
        subst hq
        simp
  | cons a as ih =>
    have ha : (a != '"') = true := hx a (by simp)
    have := ih (fun c hc => hx c (by simp [hc]))
    simp only [List.cons_append, List.takeWhile_cons, List.dropWhile_cons, ha, if_true, this.1, this.2, and_self]

theorem verOk_noDq (v : Bytes) (h : VersionOk v) : ∀ c ∈ v, (c != '"') = true := by
  intro c hc
  have := h.2 c hc
  have hne : c ≠ '"' := by
    intro e; subst e; simp [isVerCh, isLower, isUpper, isDigit] at this
  simpa using hne

/-- **C14 (signature line, all five patterns).** On `SecComponentSignature "OWASP_CRS/X…` (X not empty, without a double
    quote; what follows begins with the closing quote or is nothing; no `=` and no `'` on the line) one step of
    update-copyright replaces X by the version and leaves the rest of the line as it is. -/
theorem stepLine_signature (v y x q : Bytes) (_hv : VersionOk v) (hx0 : x ≠ []) (hx : ∀ c ∈ x, (c != '"') = true)
    (hq : q = [] ∨ q.head? = some '"') (he : '=' ∉ x ++ q) (hs : '\'' ∉ x ++ q) :
    stepLine v y (p5 ++ (x ++ q)) = p5 ++ v ++ q := by
  have hne : '=' ∉ p5 ++ (x ++ q) := by
    intro hm; rcases List.mem_append.mp hm with h | h
    · exact absurd h (by decide)
    · exact he h
  have hnq : '\'' ∉ p5 ++ (x ++ q) := by
    intro hm; rcases List.mem_append.mp hm with h | h
    · exact absurd h (by decide)
    · exact hs h
  have h1 : sub1 v (p5 ++ (x ++ q)) = p5 ++ (x ++ q) := by
    unfold sub1
    have a : stripPrefix? p1a (p5 ++ (x ++ q)) = none := by simp [p5, p1a, stripPrefix?]
    have b : stripPrefix? p1b (p5 ++ (x ++ q)) = none := by simp [p5, p1b, stripPrefix?]
    rw [a, b]
  have h2 : sub2 (digitsOf v) (p5 ++ (x ++ q)) = p5 ++ (x ++ q) := by
    unfold sub2
    rw [splitCh_noSep '=' _ hne]
    simp [sub2Fields, joinCh]
  have h3 : sub3 y (p5 ++ (x ++ q)) = p5 ++ (x ++ q) := by
    unfold sub3
    have : stripPrefix? p3 (p5 ++ (x ++ q)) = none := by simp [p3, p5, stripPrefix?]
    rw [this]
  have h4 : sub4 v (p5 ++ (x ++ q)) = p5 ++ (x ++ q) := by
    unfold sub4
    rw [splitCh_noSep '\'' _ hnq]
    simp [sub4Fields, joinCh]
  have h5 : sub5 v (p5 ++ (x ++ q)) = p5 ++ v ++ q := by
    unfold sub5
    rw [stripPrefix?_append]
    obtain ⟨ht, hd⟩ := takeDrop_run x q hx hq
    simp only [ht, hd]
    cases x with
    | nil => exact absurd rfl hx0
    | cons a as => simp
  unfold stepLine
  rw [h1, h2, h3, h4, h5]

/-- **C14 (signature line: the last invocation wins, for the composed step).** -/
theorem C14_signature_line_composed (v1 y1 v2 y2 x q : Bytes) (h1 : VersionOk v1) (h2 : VersionOk v2) (hx0 : x ≠ [])
    (hx : ∀ c ∈ x, (c != '"') = true) (hq : q = [] ∨ q.head? = some '"') (he : '=' ∉ x ++ q) (hs : '\'' ∉ x ++ q) :
    stepLine v2 y2 (stepLine v1 y1 (p5 ++ (x ++ q))) = stepLine v2 y2 (p5 ++ (x ++ q)) := by
  have heq : '=' ∉ q := fun h => he (List.mem_append.mpr (.inr h))
  have hsq : '\'' ∉ q := fun h => hs (List.mem_append.mpr (.inr h))
  rw [stepLine_signature v1 y1 x q h1 hx0 hx hq he hs, stepLine_signature v2 y2 x q h2 hx0 hx hq he hs]
  rw [List.append_assoc]
  apply stepLine_signature v2 y2 v1 q h2 h1.1 (verOk_noDq v1 h1) hq
  · intro hm; rcases List.mem_append.mp hm with h | h
    · exact verOk_noEq v1 h1 h
    · exact heq h
  · intro hm; rcases List.mem_append.mp hm with h | h
    · exact verOk_noQuote v1 h1 h
    · exact hsq h

example : stepLine b!"4.8.0" b!"2031" b!"SecComponentSignature \"OWASP_CRS/4.0.0-rc1\"" = b!"SecComponentSignature \"OWASP_CRS/4.8.0\"" := by
  decide +kernel

end Crs.Props

namespace Crs.Props
open Crs Crs.Copyright

/-! ### the copyright line -/

theorem sub3_shape (y r : Bytes) : sub3 y (p3 ++ r) = p3 ++ r ∨ sub3 y (p3 ++ r) = p3 ++ (y ++ r.drop 4) := by
  unfold sub3
  rw [stripPrefix?_append]
  simp only
  split
  · exact .inr (by simp [List.append_assoc])
  · exact .inl rfl

theorem year_noChar (y : Bytes) (hy : isYear4 y = true) (c : Char) (hc : isDigit c = false) : c ∉ y := by
  intro hm
  simp only [isYear4, Bool.and_eq_true, List.all_eq_true] at hy
  have := hy.2 c hm
  rw [hc] at this
  exact absurd this (by simp)

/-- on a line that begins like the copyright line and carries no `=` and no `'`, only the year pattern acts -/
theorem stepLine_year (v y r : Bytes) (hy : isYear4 y = true) (he : '=' ∉ r) (hs : '\'' ∉ r) :
    stepLine v y (p3 ++ r) = sub3 y (p3 ++ r) := by
  have hne : '=' ∉ p3 ++ r := by
    intro hm; rcases List.mem_append.mp hm with h | h
    · exact absurd h (by decide)
    · exact he h
  have h1 : sub1 v (p3 ++ r) = p3 ++ r := by
    unfold sub1
    have a : stripPrefix? p1a (p3 ++ r) = none := by simp [p3, p1a, stripPrefix?]
    have b : stripPrefix? p1b (p3 ++ r) = none := by simp [p3, p1b, stripPrefix?]
    rw [a, b]
  have h2 : sub2 (digitsOf v) (p3 ++ r) = p3 ++ r := by
    unfold sub2
    rw [splitCh_noSep '=' _ hne]
    simp [sub2Fields, joinCh]
  -- whatever the year pattern does, the result begins with the prefix and has no quote
  have hshape : ∃ r', sub3 y (p3 ++ r) = p3 ++ r' ∧ '\'' ∉ r' := by
    rcases sub3_shape y r with h | h
    · exact ⟨r, h, hs⟩
    · refine ⟨y ++ r.drop 4, h, ?_⟩
      intro hm; rcases List.mem_append.mp hm with h' | h'
      · exact year_noChar y hy '\'' (by decide) h'
      · exact hs (List.mem_of_mem_drop h')
  obtain ⟨r', hr', hq'⟩ := hshape
  have hnq : '\'' ∉ p3 ++ r' := by
    intro hm; rcases List.mem_append.mp hm with h | h
    · exact absurd h (by decide)
    · exact hq' h
  have h4 : sub4 v (p3 ++ r') = p3 ++ r' := by
    unfold sub4
    rw [splitCh_noSep '\'' _ hnq]
    simp [sub4Fields, joinCh]
  have h5 : sub5 v (p3 ++ r') = p3 ++ r' := by
    unfold sub5
    have : stripPrefix? p5 (p3 ++ r') = none := by simp [p3, p5, stripPrefix?]
    rw [this]
  unfold stepLine
  rw [h1, h2, hr', h4, h5]

/-- **C14 (copyright line: the last invocation wins, for the composed step).** For four-digit years and a line that begins
    `# Copyright (c) 2021-` and carries no `=` and no `'`: a second run after a first gives what the second alone gives. -/
theorem C14_year_line_composed (v1 y1 v2 y2 r : Bytes) (h1 : isYear4 y1 = true) (h2 : isYear4 y2 = true)
    (he : '=' ∉ r) (hs : '\'' ∉ r) :
    stepLine v2 y2 (stepLine v1 y1 (p3 ++ r)) = stepLine v2 y2 (p3 ++ r) := by
  rw [stepLine_year v1 y1 r h1 he hs, stepLine_year v2 y2 r h2 he hs]
  rcases sub3_shape y1 r with h | h
  · rw [h, stepLine_year v2 y2 r h2 he hs]
  · have he' : '=' ∉ y1 ++ r.drop 4 := by
      intro hm; rcases List.mem_append.mp hm with h' | h'
      · exact year_noChar y1 h1 '=' (by decide) h'
      · exact he (List.mem_of_mem_drop h')
    have hs' : '\'' ∉ y1 ++ r.drop 4 := by
      intro hm; rcases List.mem_append.mp hm with h' | h'
      · exact year_noChar y1 h1 '\'' (by decide) h'
      · exact hs (List.mem_of_mem_drop h')
    rw [h, stepLine_year v2 y2 _ h2 he' hs', ← h]
    exact C14_year_last_wins y1 y2 (p3 ++ r) h1

example : stepLine b!"4.8.0" b!"2031" b!"# Copyright (c) 2021-2024 CRS project. All rights reserved." =
    b!"# Copyright (c) 2021-2031 CRS project. All rights reserved." := by decide +kernel

end Crs.Props

namespace Crs.Props
open Crs Crs.Copyright

/-! ### a line on which only the `ver:'OWASP_CRS/…'` pattern can act -/

theorem mem_of_mem_splitCh (sep c : Char) (b f : Bytes) (hf : f ∈ splitCh sep b) (hc : c ∈ f) : c ∈ b := by
  induction b generalizing f with
  | nil => simp [splitCh] at hf; subst hf; exact absurd hc (by simp)
  | cons x xs ih =>
    by_cases hx : x = sep
    · subst hx
      rw [splitCh_sep] at hf
      rcases List.mem_cons.mp hf with rfl | hf
      · exact absurd hc (by simp)
      · exact List.mem_cons_of_mem _ (ih f hf hc)
    · rw [splitCh_cons_ne sep x xs hx] at hf
      cases hs : splitCh sep xs with
      | nil => exact absurd hs (splitCh_ne_nil _ _)
      | cons g gs =>
        rw [hs] at hf ih
        simp only [consHead, List.mem_cons] at hf
        rcases hf with rfl | hf
        · rcases List.mem_cons.mp hc with rfl | hc
          · simp
          · exact List.mem_cons_of_mem _ (ih g (by simp) hc)
        · exact List.mem_cons_of_mem _ (ih f (by simp [hf]) hc)

theorem mem_joinCh (sep c : Char) (ls : List Bytes) (hc : c ∈ joinCh sep ls) : c = sep ∨ ∃ f ∈ ls, c ∈ f := by
  induction ls with
  | nil => simp [joinCh] at hc
  | cons l rest ih =>
    cases rest with
    | nil => exact .inr ⟨l, by simp, by simpa [joinCh] using hc⟩
    | cons l' ls' =>
      simp only [joinCh, List.mem_append, List.mem_cons] at hc
      rcases hc with h | h | h
      · exact .inr ⟨l, by simp, h⟩
      · exact .inl h
      · rcases ih h with h | ⟨f, hf, hcf⟩
        · exact .inl h
        · exact .inr ⟨f, List.mem_cons_of_mem _ hf, hcf⟩

theorem sub4Fields_mem (v : Bytes) (a : Bool) (p : Bytes) (fs : List Bytes) :
    ∀ g ∈ sub4Fields v a p fs, g ∈ fs ∨ g = k4b ++ v := by
  induction fs generalizing a p with
  | nil => simp [sub4Fields]
  | cons f rest ih =>
    intro g hg
    unfold sub4Fields at hg
    split at hg
    · split at hg
      · rcases List.mem_cons.mp hg with rfl | hg
        · exact .inr rfl
        · rcases ih _ _ g hg with h | h
          · exact .inl (List.mem_cons_of_mem _ h)
          · exact .inr h
      · rcases List.mem_cons.mp hg with rfl | hg
        · exact .inl (by simp)
        · rcases ih _ _ g hg with h | h
          · exact .inl (List.mem_cons_of_mem _ h)
          · exact .inr h
    · rcases List.mem_cons.mp hg with rfl | hg
      · exact .inl (by simp)
      · rcases ih _ _ g hg with h | h
        · exact .inl (List.mem_cons_of_mem _ h)
        · exact .inr h

/-- a character that is neither on the line, nor in the version, nor in `OWASP_CRS/`, nor the quote, is not on the line
    after the `ver:` pattern has acted -/
theorem sub4_noChar (v l : Bytes) (c : Char) (hl : c ∉ l) (hv : c ∉ v) (hk : c ∉ k4b) (hq : c ≠ '\'') : c ∉ sub4 v l := by
  unfold sub4
  cases hs : splitCh '\'' l with
  | nil => exact hl
  | cons f fs =>
    simp only
    intro hm
    rcases mem_joinCh '\'' c _ hm with h | ⟨g, hg, hcg⟩
    · exact hq h
    · have hin : ∀ g' ∈ f :: fs, c ∉ g' := by
        intro g' hg' hc'
        exact hl (mem_of_mem_splitCh '\'' c l g' (by rw [hs]; exact hg') hc')
      rcases List.mem_cons.mp hg with rfl | hg
      · exact hin _ (by simp) hcg
      · rcases sub4Fields_mem v true f fs g hg with h | h
        · exact hin g (List.mem_cons_of_mem _ h) hcg
        · subst h
          rcases List.mem_append.mp hcg with h' | h'
          · exact hk h'
          · exact hv h'

theorem sub4Fields_ne_nil (v : Bytes) (a : Bool) (p f : Bytes) (fs : List Bytes) : sub4Fields v a p (f :: fs) ≠ [] := by
  unfold sub4Fields
  split
  · split <;> simp
  · simp

/-- the `ver:` pattern does not change how the line begins -/
theorem sub4_head_ne (v l : Bytes) (c0 : Char) (h : l.head? ≠ some c0) (hq : c0 ≠ '\'') : (sub4 v l).head? ≠ some c0 := by
  cases l with
  | nil => simp [sub4, splitCh, sub4Fields, joinCh]
  | cons c cs =>
    have hc : c ≠ c0 := by simpa using h
    unfold sub4
    by_cases hx : c = '\''
    · subst hx
      rw [splitCh_sep]
      simp only
      cases hs : splitCh '\'' cs with
      | nil => exact absurd hs (splitCh_ne_nil _ _)
      | cons g gs =>
        cases hf : sub4Fields v true [] (g :: gs) with
        | nil => exact absurd hf (sub4Fields_ne_nil _ _ _ _ _)
        | cons g' gs' =>
          simp only [joinCh, List.nil_append, List.head?_cons, ne_eq, Option.some.injEq]
          exact fun e => hq e.symm
    · rw [splitCh_cons_ne '\'' c cs hx]
      cases hs : splitCh '\'' cs with
      | nil => exact absurd hs (splitCh_ne_nil _ _)
      | cons g gs =>
        simp only [consHead]
        cases hf : sub4Fields v true (c :: g) gs with
        | nil => simp [joinCh, hc]
        | cons g' gs' => simp [joinCh, hc]

/-- on a line that begins neither with `#` nor with `S` and carries no `=`, only the `ver:` pattern acts -/
theorem stepLine_ver_only (v y l : Bytes) (h0 : l.head? ≠ some '#') (h1 : l.head? ≠ some 'S') (he : '=' ∉ l) :
    stepLine v y l = sub4 v l := by
  have hnone : ∀ (P : Bytes) (c0 : Char) (cs : Bytes) (m : Bytes), P = c0 :: cs → m.head? ≠ some c0 → stripPrefix? P m = none := by
    intro P c0 cs m hP hm
    subst hP
    cases m with
    | nil => simp [stripPrefix?]
    | cons c ms =>
      have : c ≠ c0 := by simpa using hm
      simp [stripPrefix?, Ne.symm this]
  have s1 : sub1 v l = l := by
    unfold sub1
    rw [hnone p1a '#' _ l rfl h0, hnone p1b '#' _ l rfl h0]
  have s2 : sub2 (digitsOf v) l = l := by
    unfold sub2
    rw [splitCh_noSep '=' l he]
    simp [sub2Fields, joinCh]
  have s3 : sub3 y l = l := by
    unfold sub3
    rw [hnone p3 '#' _ l rfl h0]
  have s5 : sub5 v (sub4 v l) = sub4 v l := by
    unfold sub5
    rw [hnone p5 'S' _ (sub4 v l) rfl (sub4_head_ne v l 'S' h1 (by decide))]
  unfold stepLine
  rw [s1, s2, s3, s5]

/-- **C14 (action line with `ver:'OWASP_CRS/…'`: the last invocation wins, for the composed step).** The usual CRS layout —
    one action per line — puts the marker on a line that begins with white space and carries no `=`. -/
theorem C14_ver_line_composed (v1 y1 v2 y2 l : Bytes) (hv1 : VersionOk v1)
    (h0 : l.head? ≠ some '#') (h1 : l.head? ≠ some 'S') (he : '=' ∉ l) :
    stepLine v2 y2 (stepLine v1 y1 l) = stepLine v2 y2 l := by
  rw [stepLine_ver_only v1 y1 l h0 h1 he, stepLine_ver_only v2 y2 l h0 h1 he]
  rw [stepLine_ver_only v2 y2 (sub4 v1 l) (sub4_head_ne v1 l '#' h0 (by decide)) (sub4_head_ne v1 l 'S' h1 (by decide))
    (sub4_noChar v1 l '=' he (verOk_noEq v1 hv1) (by decide) (by decide))]
  exact C14_secrule_ver_last_wins v1 v2 l hv1

example : stepLine b!"4.8.0" b!"2031" b!"    ver:'OWASP_CRS/4.0.0',\\" = b!"    ver:'OWASP_CRS/4.8.0',\\" := by decide +kernel

end Crs.Props

namespace Crs.Props
open Crs Crs.Copyright

/-! ### a line on which only the `setvar:tx.crs_setup_version=` pattern can act -/

theorem ite_cases' {α : Type} (c : Prop) [Decidable c] (a b : α) : (if c then a else b) = b ∨ (if c then a else b) = a := by
  by_cases h : c
  · exact .inr (by simp [h])
  · exact .inl (by simp [h])

theorem sub2Fields_mem (n : Bytes) (p2 p : Option Bytes) (fs : List Bytes) :
    ∀ g ∈ sub2Fields n p2 p fs, ∃ f ∈ fs, g = f ∨ g = n ++ f.dropWhile isDigit := by
  induction fs generalizing p2 p with
  | nil => simp [sub2Fields]
  | cons f rest ih =>
    intro g hg
    unfold sub2Fields at hg
    simp only [List.mem_cons] at hg
    rcases hg with rfl | hg
    · refine ⟨f, by simp, ?_⟩
      exact ite_cases' _ _ _
    · obtain ⟨f', hf', h⟩ := ih _ _ g hg
      exact ⟨f', List.mem_cons_of_mem _ hf', h⟩

/-- a character that is neither on the line, nor a digit, nor `=`, is not on the line after the pattern has acted -/
theorem sub2_noChar (n l : Bytes) (c : Char) (hl : c ∉ l) (hn : c ∉ n) (hq : c ≠ '=') : c ∉ sub2 n l := by
  unfold sub2
  intro hm
  rcases mem_joinCh '=' c _ hm with h | ⟨g, hg, hcg⟩
  · exact hq h
  · obtain ⟨f, hf, h⟩ := sub2Fields_mem n none none _ g hg
    have hcf : ∀ x, x ∈ f → x ∈ l := fun x hx => mem_of_mem_splitCh '=' x l f hf hx
    rcases h with rfl | rfl
    · exact hl (hcf c hcg)
    · rcases List.mem_append.mp hcg with h' | h'
      · exact hn h'
      · exact hl (hcf c ((List.dropWhile_sublist _).subset h'))

/-- the pattern does not change how the line begins (the first field has nothing before it, so it is never rewritten) -/
theorem sub2_head (n l : Bytes) : (sub2 n l).head? = l.head? ∨ (sub2 n l).head? = some '=' ∨ (sub2 n l).head? = none := by
  unfold sub2
  cases hs : splitCh '=' l with
  | nil => exact absurd hs (splitCh_ne_nil _ _)
  | cons f fs =>
    have hfirst : sub2Fields n none none (f :: fs) = f :: sub2Fields n none (some f) fs := by
      simp [sub2Fields]
    rw [hfirst]
    have hl : l = joinCh '=' (f :: fs) := by rw [← hs, joinCh_splitCh]
    cases f with
    | nil =>
      cases hr : sub2Fields n none (some []) fs with
      | nil => exact .inr (.inr (by simp [joinCh]))
      | cons g gs => exact .inr (.inl (by simp [joinCh]))
    | cons a as =>
      left
      have h1 : (joinCh '=' ((a :: as) :: sub2Fields n none (some (a :: as)) fs)).head? = some a := by
        cases sub2Fields n none (some (a :: as)) fs <;> simp [joinCh]
      have h2 : l.head? = some a := by
        rw [hl]; cases fs <;> simp [joinCh]
      rw [h1, h2]

/-- on a line that begins neither with `#` nor with `S` and carries no `'`, only the setup-version pattern acts -/
theorem stepLine_setup_only (v y l : Bytes) (h0 : l.head? ≠ some '#') (h1 : l.head? ≠ some 'S') (hs : '\'' ∉ l) :
    stepLine v y l = sub2 (digitsOf v) l := by
  have hnone : ∀ (P : Bytes) (c0 : Char) (cs : Bytes) (m : Bytes), P = c0 :: cs → m.head? ≠ some c0 → stripPrefix? P m = none := by
    intro P c0 cs m hP hm
    subst hP
    cases m with
    | nil => simp [stripPrefix?]
    | cons c ms =>
      have : c ≠ c0 := by simpa using hm
      simp [stripPrefix?, Ne.symm this]
  have hhead : ∀ c0 : Char, c0 ≠ '=' → l.head? ≠ some c0 → (sub2 (digitsOf v) l).head? ≠ some c0 := by
    intro c0 hc0 hl
    rcases sub2_head (digitsOf v) l with h | h | h
    · rw [h]; exact hl
    · rw [h]; simpa using fun e => hc0 e.symm
    · rw [h]; simp
  have hdig : '\'' ∉ digitsOf v := by
    intro hm; have := (List.mem_filter.mp hm).2; simp [isDigit] at this
  have hnq : '\'' ∉ sub2 (digitsOf v) l := sub2_noChar _ l '\'' hs hdig (by decide)
  have s1 : sub1 v l = l := by
    unfold sub1
    rw [hnone p1a '#' _ l rfl h0, hnone p1b '#' _ l rfl h0]
  have s3 : sub3 y (sub2 (digitsOf v) l) = sub2 (digitsOf v) l := by
    unfold sub3
    rw [hnone p3 '#' _ _ rfl (hhead '#' (by decide) h0)]
  have s4 : sub4 v (sub2 (digitsOf v) l) = sub2 (digitsOf v) l := by
    unfold sub4
    rw [splitCh_noSep '\'' _ hnq]
    simp [sub4Fields, joinCh]
  have s5 : sub5 v (sub2 (digitsOf v) l) = sub2 (digitsOf v) l := by
    unfold sub5
    rw [hnone p5 'S' _ _ rfl (hhead 'S' (by decide) h1)]
  unfold stepLine
  rw [s1, s3, s4, s5]

/-- **C14 (action line with `setvar:tx.crs_setup_version=NNN`: the last invocation wins, for the composed step).** -/
theorem C14_setup_line_composed (v1 y1 v2 y2 l : Bytes) (hd : ∃ c ∈ v1, isDigit c = true)
    (h0 : l.head? ≠ some '#') (h1 : l.head? ≠ some 'S') (hs : '\'' ∉ l) :
    stepLine v2 y2 (stepLine v1 y1 l) = stepLine v2 y2 l := by
  have hdig : '\'' ∉ digitsOf v1 := by
    intro hm; have := (List.mem_filter.mp hm).2; simp [isDigit] at this
  have hhead : ∀ c0 : Char, c0 ≠ '=' → l.head? ≠ some c0 → (sub2 (digitsOf v1) l).head? ≠ some c0 := by
    intro c0 hc0 hl
    rcases sub2_head (digitsOf v1) l with h | h | h
    · rw [h]; exact hl
    · rw [h]; simpa using fun e => hc0 e.symm
    · rw [h]; simp
  rw [stepLine_setup_only v1 y1 l h0 h1 hs, stepLine_setup_only v2 y2 l h0 h1 hs]
  rw [stepLine_setup_only v2 y2 _ (hhead '#' (by decide) h0) (hhead 'S' (by decide) h1)
    (sub2_noChar _ l '\'' hs hdig (by decide))]
  exact C14_setup_version_last_wins v1 v2 l hd

example : stepLine b!"4.8.0" b!"2031" b!"    setvar:tx.crs_setup_version=400\"" = b!"    setvar:tx.crs_setup_version=480\"" := by decide +kernel

end Crs.Props

namespace Crs.Props
open Crs Crs.Copyright

/-- the lines of a file in the usual CRS layout: at most one kind of marker per line -/
def OneMarkerLine (l : Bytes) : Prop :=
  (∃ P r, IsHeaderPrefix P ∧ r ≠ [] ∧ l = P ++ r) ∨
  (∃ x q, x ≠ [] ∧ (∀ c ∈ x, (c != '"') = true) ∧ (q = [] ∨ q.head? = some '"') ∧ '=' ∉ x ++ q ∧ '\'' ∉ x ++ q ∧ l = p5 ++ (x ++ q)) ∨
  (∃ r, '=' ∉ r ∧ '\'' ∉ r ∧ l = p3 ++ r) ∨
  (l.head? ≠ some '#' ∧ l.head? ≠ some 'S' ∧ '=' ∉ l) ∨
  (l.head? ≠ some '#' ∧ l.head? ≠ some 'S' ∧ '\'' ∉ l)

/-- **C14 (whole files, all five patterns composed).** For a file in which every line carries at most one kind of marker
    (`OneMarkerLine`: header, signature, copyright line, or an action line without `=` or without `'` — this includes
    every line without any marker that begins neither with `#` nor with `S`; a line beginning with `S` that is no
    signature line, e.g. `SecRule …`, is outside this definition: there the signature pattern's prefix test on the rewritten
    line is not settled), versions the command accepts (the first with a digit) and four-digit years: running
    update-copyright a second time after a first gives byte for byte what the second run alone gives. (Scannability of
    the lines the first run writes — no line ends in CR, D22 — stays a hypothesis, as in `updateRules_last_wins_of_line`.) -/
theorem C14_file_composed (v1 y1 v2 y2 b : Bytes) (hv1 : VersionOk v1) (hv2 : VersionOk v2)
    (hd : ∃ c ∈ v1, isDigit c = true) (hy1 : isYear4 y1 = true) (hy2 : isYear4 y2 = true)
    (hkind : ∀ l ∈ scanLines b, OneMarkerLine l)
    (hgood : ∀ l ∈ scanLines b, GoodLine' (stepLine v1 y1 l)) :
    updateRules v2 y2 (updateRules v1 y1 b) = updateRules v2 y2 b := by
  apply updateRules_last_wins_of_line v1 y1 v2 y2 b _ hgood
  intro l hl
  rcases hkind l hl with ⟨P, r, hP, hr, rfl⟩ | ⟨x, q, hx0, hx, hq, he, hs, rfl⟩ | ⟨r, he, hs, rfl⟩ | ⟨h0, h1, he⟩ | ⟨h0, h1, hs⟩
  · exact C14_header_line_composed P v1 y1 v2 y2 r hP hv1 hv2 hr
  · exact C14_signature_line_composed v1 y1 v2 y2 x q hv1 hv2 hx0 hx hq he hs
  · exact C14_year_line_composed v1 y1 v2 y2 r hy1 hy2 he hs
  · exact C14_ver_line_composed v1 y1 v2 y2 l hv1 h0 h1 he
  · exact C14_setup_line_composed v1 y1 v2 y2 l hd h0 h1 hs

/-- non-vacuity: the lines of a rules file in the usual layout are of these kinds -/
example : OneMarkerLine b!"    ver:'OWASP_CRS/4.0.0',\\" ∧ OneMarkerLine b!"    setvar:tx.crs_setup_version=400\"" ∧
    OneMarkerLine b!"    \"id:942100,\\" ∧ OneMarkerLine b!"# OWASP CRS ver.4.0.0" := by
  refine ⟨.inr (.inr (.inr (.inl ⟨by decide, by decide, by decide⟩))), .inr (.inr (.inr (.inr ⟨by decide, by decide, by decide⟩))),
    .inr (.inr (.inr (.inr ⟨by decide, by decide, by decide⟩))), .inl ⟨p1b, b!"4.0.0", .inr rfl, by decide, by decide⟩⟩

end Crs.Props

namespace Crs.Props
open Crs Crs.Copyright

/-! ### lines that begin with a directive word (`SecRule`, `SecAction`, `SecMarker`) -/

/-- the beginnings of the directive words of a rules file other than SecComponentSignature -/
def IsSecWord (w : Bytes) : Prop := w = b!"SecR" ∨ w = b!"SecA" ∨ w = b!"SecM"

theorem secWord_facts (w : Bytes) (h : IsSecWord w) : '=' ∉ w ∧ '\'' ∉ w ∧ w.head? = some 'S' ∧ ∀ r, stripPrefix? p5 (w ++ r) = none := by
  rcases h with rfl | rfl | rfl <;> refine ⟨by decide, by decide, rfl, fun r => by simp [p5, stripPrefix?]⟩

theorem splitCh_prefix (sep : Char) (w r f0 : Bytes) (fs0 : List Bytes) (hw : sep ∉ w) (hs : splitCh sep r = f0 :: fs0) :
    splitCh sep (w ++ r) = (w ++ f0) :: fs0 := by
  induction w with
  | nil => simpa using hs
  | cons c cs ih =>
    have hc : c ≠ sep := fun e => hw (by simp [e])
    have := ih (fun h => hw (List.mem_cons_of_mem _ h))
    simp only [List.cons_append]
    rw [splitCh_cons_ne sep c _ hc, this]
    rfl

theorem joinCh_prefix (sep : Char) (w f : Bytes) (X : List Bytes) : joinCh sep ((w ++ f) :: X) = w ++ joinCh sep (f :: X) := by
  cases X <;> simp [joinCh, List.append_assoc]

/-- the `ver:` pattern keeps a beginning of the line that has no quote in it -/
theorem sub4_prefix (v w r : Bytes) (hw : '\'' ∉ w) : ∃ r', sub4 v (w ++ r) = w ++ r' := by
  unfold sub4
  cases hs : splitCh '\'' r with
  | nil => exact absurd hs (splitCh_ne_nil _ _)
  | cons f0 fs0 =>
    rw [splitCh_prefix '\'' w r f0 fs0 hw hs]
    exact ⟨_, joinCh_prefix '\'' w f0 _⟩

/-- the setup-version pattern keeps a beginning of the line that has no `=` in it -/
theorem sub2_prefix (n w r : Bytes) (hw : '=' ∉ w) : ∃ r', sub2 n (w ++ r) = w ++ r' := by
  unfold sub2
  cases hs : splitCh '=' r with
  | nil => exact absurd hs (splitCh_ne_nil _ _)
  | cons f0 fs0 =>
    rw [splitCh_prefix '=' w r f0 fs0 hw hs]
    have hfirst : sub2Fields n none none ((w ++ f0) :: fs0) = (w ++ f0) :: sub2Fields n none (some (w ++ f0)) fs0 := by
      simp [sub2Fields]
    rw [hfirst]
    exact ⟨_, joinCh_prefix '=' w f0 _⟩

theorem stripPrefix?_hash (P cs m : Bytes) (hP : P = '#' :: cs) (hm : m.head? ≠ some '#') : stripPrefix? P m = none := by
  subst hP
  cases m with
  | nil => simp [stripPrefix?]
  | cons c ms =>
    have : c ≠ '#' := by simpa using hm
    simp [stripPrefix?, Ne.symm this]

/-- on a directive line without `=`, only the `ver:` pattern acts -/
theorem stepLine_ver_only_sec (v y w r : Bytes) (hw : IsSecWord w) (he : '=' ∉ w ++ r) :
    stepLine v y (w ++ r) = sub4 v (w ++ r) := by
  obtain ⟨_, hwq, hwh, hw5⟩ := secWord_facts w hw
  have h0 : (w ++ r).head? ≠ some '#' := by
    rcases hw with rfl | rfl | rfl <;> simp
  have s1 : sub1 v (w ++ r) = w ++ r := by
    unfold sub1
    rw [stripPrefix?_hash p1a _ _ rfl h0, stripPrefix?_hash p1b _ _ rfl h0]
  have s2 : sub2 (digitsOf v) (w ++ r) = w ++ r := by
    unfold sub2
    rw [splitCh_noSep '=' _ he]
    simp [sub2Fields, joinCh]
  have s3 : sub3 y (w ++ r) = w ++ r := by
    unfold sub3
    rw [stripPrefix?_hash p3 _ _ rfl h0]
  obtain ⟨r', hr'⟩ := sub4_prefix v w r hwq
  have s5 : sub5 v (sub4 v (w ++ r)) = sub4 v (w ++ r) := by
    rw [hr']
    unfold sub5
    rw [hw5 r']
  unfold stepLine
  rw [s1, s2, s3, s5]

/-- **C14 (directive line with `ver:'OWASP_CRS/…'` and no `=`: the last invocation wins, composed step).** -/
theorem C14_ver_sec_line_composed (v1 y1 v2 y2 w r : Bytes) (hv1 : VersionOk v1) (hw : IsSecWord w) (he : '=' ∉ w ++ r) :
    stepLine v2 y2 (stepLine v1 y1 (w ++ r)) = stepLine v2 y2 (w ++ r) := by
  obtain ⟨_, hwq, _, _⟩ := secWord_facts w hw
  rw [stepLine_ver_only_sec v1 y1 w r hw he, stepLine_ver_only_sec v2 y2 w r hw he]
  obtain ⟨r', hr'⟩ := sub4_prefix v1 w r hwq
  have he' : '=' ∉ w ++ r' := by
    rw [← hr']
    exact sub4_noChar v1 (w ++ r) '=' he (verOk_noEq v1 hv1) (by decide) (by decide)
  rw [hr', stepLine_ver_only_sec v2 y2 w r' hw he', ← hr']
  exact C14_secrule_ver_last_wins v1 v2 (w ++ r) hv1

/-- on a directive line without `'`, only the setup-version pattern acts -/
theorem stepLine_setup_only_sec (v y w r : Bytes) (hw : IsSecWord w) (hs : '\'' ∉ w ++ r) :
    stepLine v y (w ++ r) = sub2 (digitsOf v) (w ++ r) := by
  obtain ⟨hwe, _, hwh, hw5⟩ := secWord_facts w hw
  have h0 : (w ++ r).head? ≠ some '#' := by
    rcases hw with rfl | rfl | rfl <;> simp
  obtain ⟨r', hr'⟩ := sub2_prefix (digitsOf v) w r hwe
  have h0' : (w ++ r').head? ≠ some '#' := by
    rcases hw with rfl | rfl | rfl <;> simp
  have hdig : '\'' ∉ digitsOf v := by
    intro hm; have := (List.mem_filter.mp hm).2; simp [isDigit] at this
  have hnq : '\'' ∉ w ++ r' := by
    rw [← hr']; exact sub2_noChar _ (w ++ r) '\'' hs hdig (by decide)
  have s1 : sub1 v (w ++ r) = w ++ r := by
    unfold sub1
    rw [stripPrefix?_hash p1a _ _ rfl h0, stripPrefix?_hash p1b _ _ rfl h0]
  have s3 : sub3 y (w ++ r') = w ++ r' := by
    unfold sub3
    rw [stripPrefix?_hash p3 _ _ rfl h0']
  have s4 : sub4 v (w ++ r') = w ++ r' := by
    unfold sub4
    rw [splitCh_noSep '\'' _ hnq]
    simp [sub4Fields, joinCh]
  have s5 : sub5 v (w ++ r') = w ++ r' := by
    unfold sub5
    rw [hw5 r']
  unfold stepLine
  rw [s1, hr', s3, s4, s5]

/-- **C14 (directive line with `setvar:tx.crs_setup_version=NNN` and no `'`: the last invocation wins, composed step).** -/
theorem C14_setup_sec_line_composed (v1 y1 v2 y2 w r : Bytes) (hd : ∃ c ∈ v1, isDigit c = true) (hw : IsSecWord w)
    (hs : '\'' ∉ w ++ r) :
    stepLine v2 y2 (stepLine v1 y1 (w ++ r)) = stepLine v2 y2 (w ++ r) := by
  obtain ⟨hwe, _, _, _⟩ := secWord_facts w hw
  have hdig : '\'' ∉ digitsOf v1 := by
    intro hm; have := (List.mem_filter.mp hm).2; simp [isDigit] at this
  rw [stepLine_setup_only_sec v1 y1 w r hw hs, stepLine_setup_only_sec v2 y2 w r hw hs]
  obtain ⟨r', hr'⟩ := sub2_prefix (digitsOf v1) w r hwe
  have hs' : '\'' ∉ w ++ r' := by
    rw [← hr']; exact sub2_noChar _ (w ++ r) '\'' hs hdig (by decide)
  rw [hr', stepLine_setup_only_sec v2 y2 w r' hw hs', ← hr']
  exact C14_setup_version_last_wins v1 v2 (w ++ r) hd

end Crs.Props

namespace Crs.Props
open Crs Crs.Copyright

/-- the lines of a rules file: the kinds of `OneMarkerLine`, and directive lines (`SecRule …`, `SecAction …`, `SecMarker …`)
    without `=` or without `'` -/
def RulesLine (l : Bytes) : Prop :=
  OneMarkerLine l ∨ (∃ w r, IsSecWord w ∧ '=' ∉ w ++ r ∧ l = w ++ r) ∨ (∃ w r, IsSecWord w ∧ '\'' ∉ w ++ r ∧ l = w ++ r)

/-- **C14 (whole rules files, all five patterns composed).** As `C14_file_composed`, with directive lines included: the
    only lines left out are those that carry both a `=` and a `'` (the two action markers written on one line, or a
    directive line with both characters). -/
theorem C14_rules_file_composed (v1 y1 v2 y2 b : Bytes) (hv1 : VersionOk v1) (hv2 : VersionOk v2)
    (hd : ∃ c ∈ v1, isDigit c = true) (hy1 : isYear4 y1 = true) (hy2 : isYear4 y2 = true)
    (hkind : ∀ l ∈ scanLines b, RulesLine l)
    (hgood : ∀ l ∈ scanLines b, GoodLine' (stepLine v1 y1 l)) :
    updateRules v2 y2 (updateRules v1 y1 b) = updateRules v2 y2 b := by
  apply updateRules_last_wins_of_line v1 y1 v2 y2 b _ hgood
  intro l hl
  rcases hkind l hl with h | ⟨w, r, hw, he, rfl⟩ | ⟨w, r, hw, hs, rfl⟩
  · rcases h with ⟨P, r, hP, hr, rfl⟩ | ⟨x, q, hx0, hx, hq, he, hs, rfl⟩ | ⟨r, he, hs, rfl⟩ | ⟨h0, h1, he⟩ | ⟨h0, h1, hs⟩
    · exact C14_header_line_composed P v1 y1 v2 y2 r hP hv1 hv2 hr
    · exact C14_signature_line_composed v1 y1 v2 y2 x q hv1 hv2 hx0 hx hq he hs
    · exact C14_year_line_composed v1 y1 v2 y2 r hy1 hy2 he hs
    · exact C14_ver_line_composed v1 y1 v2 y2 l hv1 h0 h1 he
    · exact C14_setup_line_composed v1 y1 v2 y2 l hd h0 h1 hs
  · exact C14_ver_sec_line_composed v1 y1 v2 y2 w r hv1 hw he
  · exact C14_setup_sec_line_composed v1 y1 v2 y2 w r hd hw hs

/-- non-vacuity: the opening line of a rule is a rules line -/
example : RulesLine b!"SecRule ARGS \"@rx foo\" \\" :=
  .inr (.inl ⟨b!"SecR", b!"ule ARGS \"@rx foo\" \\", .inl rfl, by decide, by decide⟩)

end Crs.Props
