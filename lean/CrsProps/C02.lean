/-
  C02 — generated regex can be pasted between the quotes of a SecRule line.

  Model: `Crs.Passes` (the six string-level passes of `complete`) and `Crs.Asm.finish` (flag prefix).
  The theorems here hold for EVERY input text of the passes, not only for text the engine prints.
-/
import Crs.Assemble
import CrsProofs.PassesBal
namespace Crs.Props
open Crs Crs.Passes Crs.Asm

/-- printable ASCII: 0x20 … 0x7e (in particular no line feed: the text is a single line) -/
def isPrintable (c : Char) : Bool := 32 ≤ c.toNat && c.toNat ≤ 126

def AllPrintable (s : Bytes) : Prop := ∀ c ∈ s, isPrintable c = true

private theorem hexDigit_printable (n : Nat) (h : n < 16) : isPrintable (hexDigit n) = true := by
  have : ∀ k : Fin 16, isPrintable (hexDigit k.val) = true := by decide
  exact this ⟨n, h⟩

private theorem hexDigits_printable (f n : Nat) : AllPrintable (hexDigits f n) := by
  induction f generalizing n with
  | zero => simp [hexDigits, AllPrintable]
  | succ f ih =>
    unfold hexDigits
    split
    · rename_i h; intro c hc; simp only [List.mem_singleton] at hc; subst hc; exact hexDigit_printable n h
    · intro c hc
      simp only [List.mem_append, List.mem_singleton] at hc
      rcases hc with hc | hc
      · exact ih _ c hc
      · subst hc; exact hexDigit_printable _ (Nat.mod_lt _ (by decide))

/-- **C02 (hex escapes).** Whatever the text, after `useHexEscapes` every byte is printable ASCII: control
    characters, DEL, non-ASCII runes and invalid bytes all appear as `\xH…` / `\x{H…}`. -/
theorem C02_useHexEscapes_printable (s : Bytes) : AllPrintable (useHexEscapes s) := by
  unfold useHexEscapes
  generalize s.length = f
  induction f generalizing s with
  | zero => simp [useHexEscapesAux, AllPrintable]
  | succ f ih =>
    cases s with
    | nil => simp [useHexEscapesAux, AllPrintable]
    | cons c cs =>
      simp only [useHexEscapesAux]
      intro x hx
      simp only [List.mem_append] at hx
      rcases hx with hx | hx
      · split at hx
        · simp only [List.mem_append, List.mem_cons, List.not_mem_nil, or_false] at hx
          rcases hx with (rfl | rfl) | hx
          · decide
          · decide
          · exact hexDigits_printable _ _ x hx
        · split at hx
          · simp only [List.mem_append, List.mem_cons, List.not_mem_nil, or_false] at hx
            rcases hx with ((rfl | rfl | rfl) | hx) | rfl
            · decide
            · decide
            · decide
            · exact hexDigits_printable _ _ x hx
            · decide
          · rename_i h1 h2
            simp only [List.mem_singleton] at hx
            subst hx
            have hle : (decodeRune (x :: cs)).1 ≤ 126 := by omega
            obtain ⟨_, hv⟩ := decodeRune_ascii x cs hle
            simp only [isPrintable, Bool.and_eq_true, decide_eq_true_eq]
            omega
      · exact ih _ x hx

/-! ### the later passes only add printable characters -/

private theorem escapeDQ_mem (prev : Option Char) (s : Bytes) : ∀ c ∈ escapeDoublequotesAux prev s, c ∈ s ∨ c = '\\' := by
  induction s generalizing prev with
  | nil => simp [escapeDoublequotesAux]
  | cons x xs ih =>
    intro c hc
    simp only [escapeDoublequotesAux, List.mem_append] at hc
    rcases hc with hc | hc
    · split at hc
      · rename_i hq
        simp only [List.mem_cons, List.not_mem_nil, or_false] at hc
        rcases hc with rfl | rfl
        · exact Or.inr rfl
        · left
          have : x = '"' := by simp only [Bool.and_eq_true, beq_iff_eq] at hq; exact hq.1
          simp [this]
      · simp only [List.mem_singleton] at hc; subst hc; left; simp
    · rcases ih _ c hc with h | h
      · left; simp [h]
      · right; exact h

private theorem replaceAllAux_mem (old new : Bytes) (k : Nat) (s : Bytes) : ∀ c ∈ replaceAllAux old new k s, c ∈ s ∨ c ∈ new := by
  induction s generalizing k with
  | nil => simp [replaceAllAux]
  | cons x xs ih =>
    intro c hc
    cases k with
    | succ k =>
      simp only [replaceAllAux] at hc
      rcases ih k c hc with h | h
      · left; simp [h]
      · right; exact h
    | zero =>
      simp only [replaceAllAux] at hc
      split at hc
      · simp only [List.mem_append] at hc
        rcases hc with h | h
        · right; exact h
        · rcases ih _ c h with h | h
          · left; simp [h]
          · right; exact h
      · simp only [List.mem_cons] at hc
        rcases hc with rfl | h
        · left; simp
        · rcases ih _ c h with h | h
          · left; simp [h]
          · right; exact h

private theorem includeVTAux_mem (f : Nat) (ic : Bool) (s : Bytes) :
    ∀ c ∈ includeVTAux f ic s, c ∈ s ∨ c ∈ b!"\\s\\x0b " := by
  induction f generalizing ic s with
  | zero => simp [includeVTAux]
  | succ f ih =>
    cases s with
    | nil => simp [includeVTAux]
    | cons x xs =>
      intro c hc
      simp only [includeVTAux] at hc
      split at hc
      · simp only [List.mem_append] at hc
        rcases hc with h | h
        · left; exact List.mem_of_mem_take h
        · rcases ih _ _ c h with h | h
          · left; exact List.mem_of_mem_drop h
          · right; exact h
      · split at hc
        · simp only [List.mem_cons] at hc
          rcases hc with rfl | h
          · left; simp
          · rcases ih _ _ c h with h | h
            · left; simp [h]
            · right; exact h
        · split at hc
          · simp only [List.mem_cons] at hc
            rcases hc with rfl | h
            · left; simp
            · rcases ih _ _ c h with h | h
              · left; simp [h]
              · right; exact h
          · split at hc
            · simp only [List.mem_append] at hc
              rcases hc with (h | h) | h
              · right; simp only [List.mem_cons, List.not_mem_nil, or_false] at h ⊢; rcases h with rfl | rfl | rfl | rfl | rfl | rfl <;> simp
              · right; split at h <;> simp_all
              · rcases ih _ _ c h with h | h
                · left; exact List.mem_of_mem_drop h
                · right; exact h
            · simp only [List.mem_cons] at hc
              rcases hc with rfl | h
              · left; simp
              · rcases ih _ _ c h with h | h
                · left; simp [h]
                · right; exact h

private theorem dropFlagsAux_mem (f off : Nat) (r : Bytes) : ∀ c ∈ dropFlagsAux f off r, c ∈ r := by
  induction f generalizing off r with
  | zero => simp [dropFlagsAux]
  | succ f ih =>
    intro c hc
    simp only [dropFlagsAux] at hc
    split at hc
    · exact hc
    · split at hc
      · exact hc
      · split at hc
        · exact ih _ _ c hc
        · have := ih _ _ c hc
          simp only [List.mem_append] at this
          rcases this with h | h
          · exact List.mem_of_mem_take h
          · exact List.mem_of_mem_drop h

private theorem slice?_mem (s : Bytes) (a b : Nat) (t : Bytes) (h : slice? s a b = some t) : ∀ c ∈ t, c ∈ s := by
  unfold slice? at h
  split at h
  · simp only [Option.some.injEq] at h
    subst h
    intro c hc
    exact List.mem_of_mem_take (List.mem_of_mem_drop hc)
  · simp at h

private theorem removeGroup_mem (s : Bytes) (a b : Nat) (ign : Bool) (out : Bytes) (h : removeGroup s a b ign = .ok out) :
    ∀ c ∈ out, c ∈ s ∨ c ∈ b!"(?:)" := by
  unfold removeGroup at h
  split at h
  · simp at h
  · simp only at h
    split at h
    · rename_i x body rest h1 h2 h3
      simp only [Except.ok.injEq] at h
      subst h
      intro c hc
      simp only [List.mem_append] at hc
      rcases hc with (((hc | hc) | hc) | hc) | hc
      · left; exact slice?_mem _ _ _ _ h1 c hc
      · right
        split at hc
        · simp only [List.mem_cons, List.not_mem_nil, or_false] at hc ⊢
          rcases hc with rfl | rfl | rfl <;> simp
        · simp at hc
      · left; exact slice?_mem _ _ _ _ h2 c hc
      · right
        split at hc
        · simp only [List.mem_cons, List.not_mem_nil, or_false] at hc ⊢
          subst hc; simp
        · simp at hc
      · left; exact slice?_mem _ _ _ _ h3 c hc
    · simp at h

private theorem dropFlagGroupsAux_mem (f off : Nat) (r out : Bytes) (h : dropFlagGroupsAux f off r = .ok out) :
    ∀ c ∈ out, c ∈ r ∨ c ∈ b!"(?:)" := by
  induction f generalizing off r with
  | zero => simp only [dropFlagGroupsAux, Except.ok.injEq] at h; subst h; intro c hc; exact Or.inl hc
  | succ f ih =>
    simp only [dropFlagGroupsAux] at h
    split at h
    · simp only [Except.ok.injEq] at h; subst h; intro c hc; exact Or.inl hc
    · split at h
      · simp only [Except.ok.injEq] at h; subst h; intro c hc; exact Or.inl hc
      · split at h
        · exact ih _ _ h
        · split at h
          · simp at h
          · rename_i r' hrem
            intro c hc
            rcases ih _ _ h c hc with h1 | h1
            · exact removeGroup_mem _ _ _ _ _ hrem c h1
            · exact Or.inr h1

/-- **C02 (printable, single line).** Whatever text the engine returns, the cleaned-up expression consists of
    printable ASCII only — no control character, no non-ASCII byte, no line break. -/
theorem C02_cleanUp_printable (s out : Bytes) (h : cleanUp s = .ok out) : AllPrintable out := by
  unfold cleanUp at h
  simp only at h
  have p1 := C02_useHexEscapes_printable s
  have p2 : AllPrintable (escapeDoublequotes (useHexEscapes s)) := by
    intro c hc
    rcases escapeDQ_mem none _ c hc with h | rfl
    · exact p1 c h
    · decide
  have p3 : AllPrintable (useHexBackslashes (escapeDoublequotes (useHexEscapes s))) := by
    intro c hc
    rcases replaceAllAux_mem _ _ 0 _ c hc with h | h
    · exact p2 c h
    · simp only [List.mem_cons, List.not_mem_nil, or_false] at h
      rcases h with rfl | rfl | rfl | rfl <;> decide
  have p4 : AllPrintable (includeVerticalTabInSpaceClass (useHexBackslashes (escapeDoublequotes (useHexEscapes s)))) := by
    intro c hc
    rcases includeVTAux_mem _ _ _ c hc with h | h
    · exact p3 c h
    · simp only [List.mem_cons, List.not_mem_nil, or_false] at h
      rcases h with rfl | rfl | rfl | rfl | rfl | rfl | rfl <;> decide
  split at h
  · simp at h
  · rename_i s5 h5
    unfold dontUseFlagsForMetaCharacters at h5
    have p5 : AllPrintable s5 := by
      intro c hc
      rcases dropFlagGroupsAux_mem _ _ _ _ h5 c hc with h | h
      · exact p4 c (dropFlagsAux_mem _ _ _ c h)
      · simp only [List.mem_cons, List.not_mem_nil, or_false] at h
        rcases h with rfl | rfl | rfl | rfl <;> decide
    unfold removeOutermostNonCapturingGroup at h
    split at h
    · simp only [Except.ok.injEq] at h; subst h; exact p5
    · split at h
      · simp at h
      · split at h
        · simp only [Except.ok.injEq] at h; subst h; exact p5
        · intro c hc
          rcases removeGroup_mem _ _ _ _ _ h c hc with h | h
          · exact p5 c h
          · simp only [List.mem_cons, List.not_mem_nil, or_false] at h
            rcases h with rfl | rfl | rfl | rfl <;> decide

/-! ### quotes and backslashes -/

/-- every `"` is directly preceded by a backslash -/
def QuotesEscaped : (prev : Option Char) → Bytes → Prop
  | _, [] => True
  | prev, c :: cs => (c = '"' → prev = some '\\') ∧ QuotesEscaped (some c) cs

/-- **C02 (quote escaping pass).** After `escapeDoublequotes` every double quote has a backslash in front. -/
theorem C02_escapeDoublequotes (s : Bytes) : QuotesEscaped none (escapeDoublequotes s) := by
  unfold escapeDoublequotes
  have : ∀ (prev : Option Char) (s : Bytes) (p' : Option Char), (prev = some '\\' → p' = some '\\') →
      QuotesEscaped p' (escapeDoublequotesAux prev s) := by
    intro prev s
    induction s generalizing prev with
    | nil => intro p' _; simp [escapeDoublequotesAux, QuotesEscaped]
    | cons c cs ih =>
      intro p' hp
      simp only [escapeDoublequotesAux]
      split
      · rename_i hq
        have hc : c = '"' := by simp only [Bool.and_eq_true, beq_iff_eq] at hq; exact hq.1
        subst hc
        have h3 := ih (some '"') (some '"') (by intro h; exact h)
        simp [QuotesEscaped, h3]
      · rename_i hq
        simp only [List.singleton_append, QuotesEscaped]
        refine ⟨?_, ih (some c) (some c) (by intro h; exact h)⟩
        intro hc
        subst hc
        simp only [beq_self_eq_true, Bool.true_and, bne_iff_ne, ne_eq, Decidable.not_not] at hq
        exact hp hq
  exact this none s none (by intro h; exact h)

/-- no two adjacent backslashes -/
def NoBsPair : Bytes → Prop
  | [] => True
  | [_] => True
  | a :: b :: t => ¬ (a = '\\' ∧ b = '\\') ∧ NoBsPair (b :: t)

private theorem noBsPair_cons (c : Char) (t : Bytes) (h : NoBsPair t) (hc : ¬ (c = '\\' ∧ t.head? = some '\\')) : NoBsPair (c :: t) := by
  cases t with
  | nil => simp [NoBsPair]
  | cons b t' => exact ⟨by simpa using hc, h⟩

private theorem replaceBs_head (n : Nat) (s : Bytes) (hn : s.length ≤ n) :
    NoBsPair (replaceAllAux bsPair bsHex 0 s) ∧
    ((replaceAllAux bsPair bsHex 0 s).head? = some '\\' → s.head? = some '\\') := by
  induction n generalizing s with
  | zero =>
    have : s = [] := List.length_eq_zero_iff.mp (by omega)
    subst this; simp [replaceAllAux, NoBsPair]
  | succ n ih =>
    match s, hn with
    | [], _ => simp [replaceAllAux, NoBsPair]
    | [c], _ =>
      rw [replaceBs_other c [] (by simp)]
      simp [replaceAllAux, NoBsPair]
    | c :: c2 :: t, hn =>
      by_cases hp : c = '\\' ∧ c2 = '\\'
      · obtain ⟨rfl, rfl⟩ := hp
        rw [replaceBs_pair]
        obtain ⟨h1, _⟩ := ih t (by simp at hn; omega)
        refine ⟨?_, by simp⟩
        -- \x5c followed by a text without pairs
        simp only [bsHex, List.cons_append, List.nil_append]
        refine ⟨by simp, ?_⟩
        refine ⟨by simp, ?_⟩
        refine ⟨by simp, ?_⟩
        exact noBsPair_cons 'c' _ h1 (by simp)
      · rw [replaceBs_other c (c2 :: t) (by simpa using hp)]
        obtain ⟨h1, h2⟩ := ih (c2 :: t) (by simp at hn ⊢; omega)
        refine ⟨noBsPair_cons c _ h1 ?_, by simp⟩
        rintro ⟨hc, hh⟩
        have := h2 hh
        simp only [List.head?_cons, Option.some.injEq] at this
        exact hp ⟨hc, this⟩

/-- **C02 (literal backslash only as `\x5c`).** After `useHexBackslashes` no escaped backslash `\\` is left. -/
theorem C02_useHexBackslashes (s : Bytes) : NoBsPair (useHexBackslashes s) :=
  (replaceBs_head _ s (Nat.le_refl _)).1

/-- the known finding D09, as a fact about the model: an escaped backslash followed by a quote ends up as a
    bare quote (the quote pass looks one byte back, the backslash pass then rewrites that byte) -/
theorem C02_bare_quote_after_escaped_backslash_D09 :
    cleanUp "a\\\\\"b".toList = .ok "a\\x5c\"b".toList := by
  decide +kernel

/-! ### flags -/

/-- **C02/C03 (flag prefix).** The prefix is `(?` + the sorted sub-list of `[i, s]` + `)`, whatever the order and
    multiplicity in which the flags were collected (map iteration order). -/
theorem C02_flags_sorted (fl : List Char) :
    sortFlags fl = [] ∨ sortFlags fl = ['i'] ∨ sortFlags fl = ['s'] ∨ sortFlags fl = ['i', 's'] := by
  by_cases hi : 'i' ∈ fl <;> by_cases hs : 's' ∈ fl <;> simp [sortFlags, hi, hs]

theorem C02_flags_order_free (fl fl' : List Char) (h : ∀ c, c ∈ fl ↔ c ∈ fl') : sortFlags fl = sortFlags fl' := by
  unfold sortFlags
  have hi : fl.contains 'i' = fl'.contains 'i' := by
    rw [Bool.eq_iff_iff]; simp [h 'i']
  have hs : fl.contains 's' = fl'.contains 's' := by
    rw [Bool.eq_iff_iff]; simp [h 's']
  rw [hi, hs]

private theorem allPrintable_append (a b : Bytes) (ha : AllPrintable a) (hb : AllPrintable b) : AllPrintable (a ++ b) := by
  intro c hc
  simp only [List.mem_append] at hc
  rcases hc with h | h
  · exact ha c h
  · exact hb c h

private theorem sortFlags_printable (fl : List Char) : AllPrintable (sortFlags fl) := by
  rcases C02_flags_sorted fl with h | h | h | h <;> rw [h] <;> intro c hc <;> simp at hc
  · subst hc; decide
  · subst hc; decide
  · rcases hc with rfl | rfl <;> decide

/-- what `finish` prints: printable ASCII on one line, and — when the program sets flags and the expression is
    not empty — the flag group `(?` + sorted flags + `)` in front -/
theorem C02_finish (E : Engine) (fl : List Char) (text out : Bytes) (h : finish E fl text = .ok out) :
    AllPrintable out ∧
    (out = [] ∨ ∃ body, out = (if sortFlags fl = [] then [] else b!"(?" ++ sortFlags fl ++ b!")") ++ body) := by
  unfold finish at h
  split at h
  · simp only [Except.ok.injEq] at h; subst h; exact ⟨by intro c hc; simp at hc, Or.inl rfl⟩
  · split at h
    · simp at h
    · split at h
      · simp at h
      · rename_i r hr
        simp only [Except.ok.injEq] at h
        have pr := C02_cleanUp_printable _ _ hr
        subst h
        by_cases hcond : (!(sortFlags fl).isEmpty && !r.isEmpty) = true
        · rw [if_pos hcond]
          have hne : ¬ sortFlags fl = [] := by
            simp only [Bool.and_eq_true, Bool.not_eq_true', List.isEmpty_eq_false_iff] at hcond
            exact hcond.1
          refine ⟨?_, Or.inr ⟨r, by rw [if_neg hne]⟩⟩
          apply allPrintable_append _ _ _ pr
          apply allPrintable_append
          · apply allPrintable_append _ _ _ (sortFlags_printable fl)
            intro c hc; simp only [List.mem_cons, List.not_mem_nil, or_false] at hc
            rcases hc with rfl | rfl <;> decide
          · intro c hc; simp only [List.mem_cons, List.not_mem_nil, or_false] at hc
            subst hc; decide
        · rw [if_neg hcond]
          refine ⟨pr, ?_⟩
          by_cases hre : r = []
          · exact Or.inl hre
          · right
            refine ⟨r, ?_⟩
            have : sortFlags fl = [] := by
              cases hsf : sortFlags fl with
              | nil => rfl
              | cons x xs =>
                exfalso
                apply hcond
                cases r with
                | nil => exact absurd rfl hre
                | cons y ys => simp [hsf]
            simp [this]

end Crs.Props
