import Crs.Passes
namespace Crs.Props
theorem C02_placeholder : True := trivial
end Crs.Props
