/-
  C09 — format produces one canonical layout and is idempotent; --check agrees with it.

  Model: `Crs.Format` (cmd/regex_format.go) on top of the recognisers `Crs.Pat`.
-/
import Crs.Format
import CrsProofs.Lines
import CrsProofs.FormatFile
namespace Crs.Props
open Crs Crs.Format Crs.Pat

/-! ### canonical layout of the output -/

theorem trimTrailingEmpty_cons_of_cons (l : Bytes) (ls : List Bytes) (r : Bytes) (rs : List Bytes)
    (h : trimTrailingEmpty ls = r :: rs) : trimTrailingEmpty (l :: ls) = l :: r :: rs := by
  simp [trimTrailingEmpty, h]

theorem trimTrailingEmpty_cons_of_nil (l : Bytes) (ls : List Bytes)
    (h : trimTrailingEmpty ls = []) : trimTrailingEmpty (l :: ls) = if l.isEmpty then [] else [l] := by
  simp [trimTrailingEmpty, h]

/-- the last line that survives is not empty: no empty line precedes the final newline -/
theorem trimTrailingEmpty_last (ls : List Bytes) (l : Bytes)
    (h : (trimTrailingEmpty ls).getLast? = some l) : l ≠ [] := by
  induction ls with
  | nil => simp [trimTrailingEmpty] at h
  | cons x xs ih =>
    cases hd : trimTrailingEmpty xs with
    | nil =>
      rw [trimTrailingEmpty_cons_of_nil x xs hd] at h
      split at h
      · simp at h
      · rename_i hb
        simp only [List.getLast?_singleton, Option.some.injEq] at h
        subst h
        intro e; rw [e] at hb; simp at hb
    | cons r rs =>
      rw [trimTrailingEmpty_cons_of_cons x xs r rs hd] at h
      rw [hd] at ih
      simp only [List.getLast?_cons_cons] at h
      exact ih h

theorem trimTrailingEmpty_idem (ls : List Bytes) : trimTrailingEmpty (trimTrailingEmpty ls) = trimTrailingEmpty ls := by
  induction ls with
  | nil => simp [trimTrailingEmpty]
  | cons l ls ih =>
    cases h : trimTrailingEmpty ls with
    | nil =>
      rw [trimTrailingEmpty_cons_of_nil l ls h]
      split
      · simp [trimTrailingEmpty]
      · rename_i hb; simp [trimTrailingEmpty, hb]
    | cons r rs =>
      rw [h] at ih
      rw [trimTrailingEmpty_cons_of_cons l ls r rs h, trimTrailingEmpty_cons_of_cons l (r :: rs) r rs ih]

/-- removing trailing empty lines keeps a prefix: nothing but empty lines is removed, nothing is reordered -/
theorem trimTrailingEmpty_prefix (ls : List Bytes) :
    ∃ k, ls = trimTrailingEmpty ls ++ List.replicate k [] := by
  induction ls with
  | nil => exact ⟨0, by simp [trimTrailingEmpty]⟩
  | cons l ls ih =>
    obtain ⟨k, hk⟩ := ih
    cases h : trimTrailingEmpty ls with
    | nil =>
      rw [trimTrailingEmpty_cons_of_nil l ls h]
      rw [h] at hk
      split
      · rename_i hb
        have : l = [] := by simpa using hb
        exact ⟨k + 1, by rw [this, hk]; simp [List.replicate_succ]⟩
      · exact ⟨k, by rw [hk]; simp⟩
    | cons r rs =>
      rw [trimTrailingEmpty_cons_of_cons l ls r rs h]
      rw [h] at hk
      exact ⟨k, by rw [hk]; simp⟩

/-- **C09 (canonical frame of the file).** Whatever the input, a successful format yields: the two
    header lines, an empty line, then the formatted lines without trailing empty lines, every line
    terminated by exactly one `\n`; in particular the file ends with exactly one newline after a
    non-empty line (or is the bare header followed by its empty line). -/
theorem C09_canonical_frame (b out : Bytes) (h : formatFile b = .ok out) :
    ∃ body : List Bytes,
      out = unlines (header1 :: header2 :: [] :: body) ∧
      (∀ l, body.getLast? = some l → l ≠ []) := by
  unfold formatFile at h
  split at h
  · simp at h
  · split at h
    · simp at h
    · rename_i ls _
      simp only [Except.ok.injEq] at h
      exact ⟨_, h.symm, fun l hl => trimTrailingEmpty_last _ l hl⟩

/-! ### indentation bookkeeping of `processLine` -/

/-- the next indentation differs from the current one by at most one, and only block start/end lines change it -/
theorem processLine_indent (line : Bytes) (indent : Nat) (l' : Bytes) (n : Nat)
    (h : processLine line indent = some (l', n)) :
    n = indent ∨ (n = indent + 1 ∧ (blockStart? line).isSome) ∨ (n + 1 = indent ∧ blockEnd? line = true) := by
  unfold processLine at h
  simp only at h
  split at h
  · simp only [Option.some.injEq, Prod.mk.injEq] at h; exact Or.inl h.2.symm
  · split at h
    · rename_i kw arg hbs
      simp only [Option.some.injEq, Prod.mk.injEq] at h
      exact Or.inr (Or.inl ⟨h.2.symm, by simp [hbs]⟩)
    · split at h
      · rename_i hbe
        split at h
        · simp at h
        · rename_i hz
          simp only [Option.some.injEq, Prod.mk.injEq] at h
          refine Or.inr (Or.inr ⟨?_, hbe⟩)
          have : indent ≠ 0 := by simpa using hz
          omega
      · repeat' split at h
        all_goals (simp only [Option.some.injEq, Prod.mk.injEq] at h; exact Or.inl h.2.symm)

/-- an unbalanced end marker is the only way for `processLine` to fail, and it fails only at depth 0 -/
theorem processLine_none_iff (line : Bytes) (indent : Nat) :
    processLine line indent = none ↔
      ((trimLeftSpTab line).isEmpty = false ∧ blockStart? line = none ∧ blockEnd? line = true ∧ indent = 0) := by
  unfold processLine
  simp only
  constructor
  · intro h
    split at h
    · simp at h
    · rename_i hne
      split at h
      · simp at h
      · rename_i hbs
        split at h
        · rename_i hbe
          split at h
          · rename_i hz
            exact ⟨by simpa using hne, hbs, hbe, by simpa using hz⟩
          · simp at h
        · repeat' split at h
          all_goals simp at h
  · rintro ⟨hne, hbs, hbe, hz⟩
    simp [hne, hbs, hbe, hz]

/-- flag, prefix and suffix lines are put at column 0 whatever the depth -/
theorem processLine_flags_col0 (line v : Bytes) (indent : Nat)
    (hne : (trimLeftSpTab line).isEmpty = false) (hbs : blockStart? line = none) (hbe : blockEnd? line = false)
    (hf : flags? line = some v) :
    processLine line indent = some (b!"##!+ " ++ v, indent) := by
  unfold processLine
  simp [hne, hbs, hbe, hf]

/-! ### `--check` -/

/-- **C09 (--check).** Check mode succeeds exactly when formatting would leave the file
    byte-identical and the upper-case lint is silent; it fails loudly when formatting fails.
    (`checkFile` returns no new contents: check mode has nothing to write.) -/
theorem C09_check_iff (b : Bytes) (lint : Bool) :
    (checkFile b lint = .ok true ↔ (formatFile b = .ok b ∧ lint = false)) ∧
    (∀ e, checkFile b lint = .error e ↔ formatFile b = .error e) := by
  unfold checkFile
  cases h : formatFile b with
  | error e => simp
  | ok out =>
    simp only [Except.ok.injEq, Bool.and_eq_true, beq_iff_eq, Bool.not_eq_true', reduceCtorEq, iff_false,
      not_false_eq_true, implies_true, and_true]

/-- a failing format never produces contents to write: `formatFile` is the only source of new bytes (C10: errors keep the file) -/
theorem C09_error_writes_nothing (b : Bytes) (e : Fault) (h : formatFile b = .error e) :
    ∀ out, formatFile b ≠ .ok out := by
  intro out h'; rw [h] at h'; simp at h'

/-! ### idempotence -/

/-- no line of the file ends in `\r\r\n` (or `\r\r` at end of file). Files that do are the known finding D22:
    the line scanner drops one `\r` per pass, so each run changes them again. -/
def NoCRCR (b : Bytes) : Prop := ∀ l ∈ scanLines b, l.getLast? ≠ some '\r'

theorem hasHeader_drop (ls : List Bytes) (h : hasHeader ls = true) :
    (ls = [header1, header2] ∧ ls.drop 3 = []) ∨ ls = header1 :: header2 :: [] :: ls.drop 3 := by
  match ls, h with
  | [a, b], h =>
    simp only [hasHeader, Bool.and_eq_true, beq_iff_eq] at h
    left; rw [h.1, h.2]; simp
  | a :: b :: c :: rest, h =>
    simp only [hasHeader, Bool.and_eq_true, beq_iff_eq, List.isEmpty_iff] at h
    right; rw [h.1.1, h.1.2, h.2]; simp

theorem all_of_subset {α} (p : α → Bool) (a b : List α) (hs : ∀ x ∈ a, x ∈ b) (h : b.all p = true) : a.all p = true := by
  simp only [List.all_eq_true] at h ⊢
  exact fun x hx => h x (hs x hx)

/-- **C09 (idempotence).** Formatting the output of a successful format succeeds and returns it unchanged —
    for every input file without `\r\r` line ends. -/
theorem C09_idempotent (b out : Bytes) (hcr : NoCRCR b) (h : formatFile b = .ok out) :
    formatFile out = .ok out := by
  -- first run
  have hX : ∀ l ∈ scanLines b, Good l := fun l hl => ⟨scanLines_noNl b l hl, hcr l hl⟩
  have hP : parsedLines b = (scanLines b).map trimLeftSpTab := by
    unfold parsedLines
    apply scanLines_unlines
    · intro l hl; simp only [List.mem_map] at hl; obtain ⟨x, hx, rfl⟩ := hl; exact (good_trimLeft x (hX x hx)).1
    · intro l hl; simp only [List.mem_map] at hl; obtain ⟨x, hx, rfl⟩ := hl; exact (good_trimLeft x (hX x hx)).2
  unfold formatFile at h
  split at h
  · simp at h
  rename_i hacc
  simp only [Bool.not_eq_true, Bool.not_eq_false] at hacc
  split at h
  · simp at h
  rename_i ls hfl
  simp only [Except.ok.injEq] at h
  obtain ⟨R1, R2, R3⟩ := formatLines_reemit (parsedLines b) 0 ls (parsedLines_leftTrimmed b) hfl
  have R2' := R2 (by rw [hP]; simpa using hacc)
  have R3' := R3 (by rw [hP]; intro l hl; simp only [List.mem_map] at hl; obtain ⟨x, hx, rfl⟩ := hl; exact good_trimLeft x (hX x hx))
  -- the body after the header
  generalize hbody : (if hasHeader ls = true then List.drop 3 ls else ls) = body at h
  have hsub : ∀ x ∈ body, x ∈ ls := by
    intro x hx; rw [← hbody] at hx
    split at hx
    · exact List.mem_of_mem_drop hx
    · exact hx
  have hbf : formatLines (body.map trimLeftSpTab) 0 = some body := by
    rw [← hbody]
    split
    · rename_i hh
      rcases hasHeader_drop ls hh with ⟨_, e⟩ | e
      · rw [e]; rfl
      · rw [e] at R1
        simp only [List.map_cons, header_trim.1, header_trim.2] at R1
        obtain ⟨l1, k1, r1, p1, f1, e1⟩ := formatLines_cons_inv _ _ _ _ R1
        rw [processLine_header1] at p1
        simp only [Option.some.injEq, Prod.mk.injEq] at p1
        obtain ⟨rfl, rfl⟩ := p1
        obtain ⟨l2, k2, r2, p2, f2, e2⟩ := formatLines_cons_inv _ _ _ _ f1
        rw [processLine_header2] at p2
        simp only [Option.some.injEq, Prod.mk.injEq] at p2
        obtain ⟨rfl, rfl⟩ := p2
        have t0 : trimLeftSpTab ([] : Bytes) = [] := rfl
        rw [t0] at f2
        obtain ⟨l3, k3, r3, p3, f3, e3⟩ := formatLines_cons_inv _ _ _ _ f2
        rw [processLine_empty0] at p3
        simp only [Option.some.injEq, Prod.mk.injEq] at p3
        obtain ⟨rfl, rfl⟩ := p3
        rw [e2, e3] at e1
        simp only [List.cons.injEq, true_and] at e1
        rw [← e1] at f3
        exact f3
    · exact R1
  -- trailing empty lines go
  obtain ⟨k, hk⟩ := trimTrailingEmpty_prefix body
  generalize hT : trimTrailingEmpty body = T at h hk
  have hTf : formatLines (T.map trimLeftSpTab) 0 = some T := by
    apply formatLines_map_prefix T (List.replicate k []) 0
    rw [← hk]; exact hbf
  have hTsub : ∀ x ∈ T, x ∈ ls := fun x hx => hsub x (by rw [hk]; simp [hx])
  have hTidem : trimTrailingEmpty T = T := by rw [← hT]; exact trimTrailingEmpty_idem body
  -- second run
  have hL2 : ∀ l ∈ header1 :: header2 :: [] :: T, Good l := by
    intro l hl
    simp only [List.mem_cons] at hl
    rcases hl with rfl | rfl | rfl | hl
    · exact good_header1
    · exact good_header2
    · exact good_nil
    · exact R3' l (hTsub l hl)
  subst h
  have hs2 : scanLines (unlines (header1 :: header2 :: [] :: T)) = header1 :: header2 :: [] :: T :=
    scanLines_unlines _ (fun l hl => (hL2 l hl).1) (fun l hl => (hL2 l hl).2)
  have hp2 := parsedLines_of_good _ hL2
  have t0 : trimLeftSpTab ([] : Bytes) = [] := rfl
  have hacc2 : ((header1 :: header2 :: [] :: T).map trimLeftSpTab).all lineAccepted = true := by
    simp only [List.map_cons, List.all_cons, header_trim.1, header_trim.2, t0, header_accepted.1, header_accepted.2.1,
      header_accepted.2.2, Bool.true_and]
    apply all_of_subset lineAccepted _ _ _ R2'
    intro x hx
    simp only [List.mem_map] at hx ⊢
    obtain ⟨y, hy, rfl⟩ := hx
    exact ⟨y, hTsub y hy, rfl⟩
  have hf2 : formatLines ((header1 :: header2 :: [] :: T).map trimLeftSpTab) 0 = some (header1 :: header2 :: [] :: T) := by
    simp only [List.map_cons, header_trim.1, header_trim.2, t0]
    exact formatLines_cons _ _ _ _ _ _ processLine_header1
      (formatLines_cons _ _ _ _ _ _ processLine_header2 (formatLines_cons _ _ _ _ _ _ processLine_empty0 hTf))
  have hh2 : hasHeader (header1 :: header2 :: [] :: T) = true := by simp [hasHeader]
  unfold formatFile
  simp only [hs2, hacc2, hp2, hf2, hh2, Bool.not_true, Bool.false_eq_true, if_false, if_true, List.drop_succ_cons, List.drop_zero, hTidem]

/-- the hypothesis is satisfiable and the conclusion is not vacuous: see the example below (a file with CRLF line ends). -/
example : NoCRCR "a\r\n  b\n".toList := by
  intro l hl
  have : scanLines "a\r\n  b\n".toList = ["a".toList, "  b".toList] := by decide +kernel
  rw [this] at hl
  simp only [List.mem_cons, List.not_mem_nil, or_false] at hl
  rcases hl with rfl | rfl <;> decide

/-- non-vacuity: a small file with a block, a flag line and trailing blanks formats as expected, and the
    result is a fixed point -/
def exampleRa : Bytes := "  ##!>assemble\n\tfoo\n##!+   i\n ##!<\n\n\n".toList
def exampleRaOut : Bytes :=
  "##! Please refer to the documentation at\n##! https://coreruleset.org/docs/development/regex_assembly/.\n\n##!> assemble\n  foo\n##!+ i\n##!<\n".toList
def yields (r : Except Fault Bytes) (y : Bytes) : Bool := match r with | .ok o => o == y | .error _ => false
example : yields (formatFile exampleRa) exampleRaOut = true ∧ yields (formatFile exampleRaOut) exampleRaOut = true := by
  decide +kernel

end Crs.Props
