/-
  C09 — format produces one canonical layout and is idempotent; --check agrees with it.

  Model: `Crs.Format` (cmd/regex_format.go) on top of the recognisers `Crs.Pat`.
-/
import Crs.Format
import CrsProofs.Lines
namespace Crs.Props
open Crs Crs.Format Crs.Pat

/-! ### canonical layout of the output -/

theorem trimTrailingEmpty_cons_of_cons (l : Bytes) (ls : List Bytes) (r : Bytes) (rs : List Bytes)
    (h : trimTrailingEmpty ls = r :: rs) : trimTrailingEmpty (l :: ls) = l :: r :: rs := by
  simp [trimTrailingEmpty, h]

theorem trimTrailingEmpty_cons_of_nil (l : Bytes) (ls : List Bytes)
    (h : trimTrailingEmpty ls = []) : trimTrailingEmpty (l :: ls) = if l.isEmpty then [] else [l] := by
  simp [trimTrailingEmpty, h]

/-- the last line that survives is not empty: no empty line precedes the final newline -/
theorem trimTrailingEmpty_last (ls : List Bytes) (l : Bytes)
    (h : (trimTrailingEmpty ls).getLast? = some l) : l ≠ [] := by
  induction ls with
  | nil => simp [trimTrailingEmpty] at h
  | cons x xs ih =>
    cases hd : trimTrailingEmpty xs with
    | nil =>
      rw [trimTrailingEmpty_cons_of_nil x xs hd] at h
      split at h
      · simp at h
      · rename_i hb
        simp only [List.getLast?_singleton, Option.some.injEq] at h
        subst h
        intro e; rw [e] at hb; simp at hb
    | cons r rs =>
      rw [trimTrailingEmpty_cons_of_cons x xs r rs hd] at h
      rw [hd] at ih
      simp only [List.getLast?_cons_cons] at h
      exact ih h

theorem trimTrailingEmpty_idem (ls : List Bytes) : trimTrailingEmpty (trimTrailingEmpty ls) = trimTrailingEmpty ls := by
  induction ls with
  | nil => simp [trimTrailingEmpty]
  | cons l ls ih =>
    cases h : trimTrailingEmpty ls with
    | nil =>
      rw [trimTrailingEmpty_cons_of_nil l ls h]
      split
      · simp [trimTrailingEmpty]
      · rename_i hb; simp [trimTrailingEmpty, hb]
    | cons r rs =>
      rw [h] at ih
      rw [trimTrailingEmpty_cons_of_cons l ls r rs h, trimTrailingEmpty_cons_of_cons l (r :: rs) r rs ih]

/-- removing trailing empty lines keeps a prefix: nothing but empty lines is removed, nothing is reordered -/
theorem trimTrailingEmpty_prefix (ls : List Bytes) :
    ∃ k, ls = trimTrailingEmpty ls ++ List.replicate k [] := by
  induction ls with
  | nil => exact ⟨0, by simp [trimTrailingEmpty]⟩
  | cons l ls ih =>
    obtain ⟨k, hk⟩ := ih
    cases h : trimTrailingEmpty ls with
    | nil =>
      rw [trimTrailingEmpty_cons_of_nil l ls h]
      rw [h] at hk
      split
      · rename_i hb
        have : l = [] := by simpa using hb
        exact ⟨k + 1, by rw [this, hk]; simp [List.replicate_succ]⟩
      · exact ⟨k, by rw [hk]; simp⟩
    | cons r rs =>
      rw [trimTrailingEmpty_cons_of_cons l ls r rs h]
      rw [h] at hk
      exact ⟨k, by rw [hk]; simp⟩

/-- **C09 (canonical frame of the file).** Whatever the input, a successful format yields: the two
    header lines, an empty line, then the formatted lines without trailing empty lines, every line
    terminated by exactly one `\n`; in particular the file ends with exactly one newline after a
    non-empty line (or is the bare header followed by its empty line). -/
theorem C09_canonical_frame (b out : Bytes) (h : formatFile b = .ok out) :
    ∃ body : List Bytes,
      out = unlines (header1 :: header2 :: [] :: body) ∧
      (∀ l, body.getLast? = some l → l ≠ []) := by
  unfold formatFile at h
  split at h
  · simp at h
  · split at h
    · simp at h
    · rename_i ls _
      simp only [Except.ok.injEq] at h
      exact ⟨_, h.symm, fun l hl => trimTrailingEmpty_last _ l hl⟩

/-! ### indentation bookkeeping of `processLine` -/

/-- the next indentation differs from the current one by at most one, and only block start/end lines change it -/
theorem processLine_indent (line : Bytes) (indent : Nat) (l' : Bytes) (n : Nat)
    (h : processLine line indent = some (l', n)) :
    n = indent ∨ (n = indent + 1 ∧ (blockStart? line).isSome) ∨ (n + 1 = indent ∧ blockEnd? line = true) := by
  unfold processLine at h
  simp only at h
  split at h
  · simp only [Option.some.injEq, Prod.mk.injEq] at h; exact Or.inl h.2.symm
  · split at h
    · rename_i kw arg hbs
      simp only [Option.some.injEq, Prod.mk.injEq] at h
      exact Or.inr (Or.inl ⟨h.2.symm, by simp [hbs]⟩)
    · split at h
      · rename_i hbe
        split at h
        · simp at h
        · rename_i hz
          simp only [Option.some.injEq, Prod.mk.injEq] at h
          refine Or.inr (Or.inr ⟨?_, hbe⟩)
          have : indent ≠ 0 := by simpa using hz
          omega
      · repeat' split at h
        all_goals (simp only [Option.some.injEq, Prod.mk.injEq] at h; exact Or.inl h.2.symm)

/-- an unbalanced end marker is the only way for `processLine` to fail, and it fails only at depth 0 -/
theorem processLine_none_iff (line : Bytes) (indent : Nat) :
    processLine line indent = none ↔
      ((trimLeftSpTab line).isEmpty = false ∧ blockStart? line = none ∧ blockEnd? line = true ∧ indent = 0) := by
  unfold processLine
  simp only
  constructor
  · intro h
    split at h
    · simp at h
    · rename_i hne
      split at h
      · simp at h
      · rename_i hbs
        split at h
        · rename_i hbe
          split at h
          · rename_i hz
            exact ⟨by simpa using hne, hbs, hbe, by simpa using hz⟩
          · simp at h
        · repeat' split at h
          all_goals simp at h
  · rintro ⟨hne, hbs, hbe, hz⟩
    simp [hne, hbs, hbe, hz]

/-- flag, prefix and suffix lines are put at column 0 whatever the depth -/
theorem processLine_flags_col0 (line v : Bytes) (indent : Nat)
    (hne : (trimLeftSpTab line).isEmpty = false) (hbs : blockStart? line = none) (hbe : blockEnd? line = false)
    (hf : flags? line = some v) :
    processLine line indent = some (b!"##!+ " ++ v, indent) := by
  unfold processLine
  simp [hne, hbs, hbe, hf]

/-! ### `--check` -/

/-- **C09 (--check).** Check mode succeeds exactly when formatting would leave the file
    byte-identical and the upper-case lint is silent; it fails loudly when formatting fails.
    (`checkFile` returns no new contents: check mode has nothing to write.) -/
theorem C09_check_iff (b : Bytes) (lint : Bool) :
    (checkFile b lint = .ok true ↔ (formatFile b = .ok b ∧ lint = false)) ∧
    (∀ e, checkFile b lint = .error e ↔ formatFile b = .error e) := by
  unfold checkFile
  cases h : formatFile b with
  | error e => simp
  | ok out =>
    simp only [Except.ok.injEq, Bool.and_eq_true, beq_iff_eq, Bool.not_eq_true', reduceCtorEq, iff_false,
      not_false_eq_true, implies_true, and_true]

/-- a failing format never produces contents to write: `formatFile` is the only source of new bytes (C10: errors keep the file) -/
theorem C09_error_writes_nothing (b : Bytes) (e : Fault) (h : formatFile b = .error e) :
    ∀ out, formatFile b ≠ .ok out := by
  intro out h'; rw [h] at h'; simp at h'

/-- non-vacuity: a small file with a block, a flag line and trailing blanks formats as expected, and the
    result is a fixed point -/
def exampleRa : Bytes := "  ##!>assemble\n\tfoo\n##!+   i\n ##!<\n\n\n".toList
def exampleRaOut : Bytes :=
  "##! Please refer to the documentation at\n##! https://coreruleset.org/docs/development/regex_assembly/.\n\n##!> assemble\n  foo\n##!+ i\n##!<\n".toList
def yields (r : Except Fault Bytes) (y : Bytes) : Bool := match r with | .ok o => o == y | .error _ => false
example : yields (formatFile exampleRa) exampleRaOut = true ∧ yields (formatFile exampleRaOut) exampleRaOut = true := by
  decide +kernel

end Crs.Props
