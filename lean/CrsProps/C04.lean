/-
  C04 — cmdline blocks match every listed command with anti-evasion tokens interleaved.

  Model: `Crs.Asm.regexpStr`, `computeSuffix`, `interleave`, `regexpChar` (regex/processors/cmdline.go) with the
  three configured patterns of the block's shell as parameters (configuration/configuration.go loads them;
  an absent or unreadable file gives three empty patterns).
  The theorems give the exact text a command word is turned into; that this text denotes
  `c₁·E·c₂·…·cₙ[·E·S]` follows from the engine's concatenation law and is checked on the real engine by the
  membership oracle (variants drawn from the configured patterns' own syntax trees).
-/
import Crs.Assemble
import CrsProofs.Lines
namespace Crs.Props
open Crs Crs.Asm Crs.Passes

/-- **C04 (interleaving).** The characters of the word, each written by `regexpChar` (`.` and `-` escaped, a space
    as `\s+`), with the evasion pattern between any two adjacent characters — and nowhere else. -/
theorem C04_interleave (ev : Bytes) (w : Bytes) : interleave ev w = ev.intercalate (w.map regexpChar) := by
  induction w with
  | nil => simp [interleave, List.intercalate]
  | cons c t ih =>
    cases t with
    | nil => simp [interleave, List.intercalate]
    | cons d rest =>
      rw [interleave, ih]
      simp [List.intercalate, List.intersperse]

/-- with an empty evasion pattern (missing, unreadable or empty toolchain.yaml) nothing is inserted -/
theorem C04_empty_config (w : Bytes) : interleave [] w = (w.map regexpChar).flatten := by
  induction w with
  | nil => simp [interleave]
  | cons c t ih =>
    cases t with
    | nil => simp [interleave]
    | cons d rest => rw [interleave, ih]; simp

theorem C04_regexpChar (c : Char) (hc : c.toNat < 0x80) :
    regexpChar c = if c = '.' then b!"\\." else if c = '-' then b!"\\-" else if c = ' ' then b!"\\s+" else [c] := by
  unfold regexpChar; simp [hc]

/-- a leading `'` passes the rest of the line through untouched -/
theorem C04_verbatim (p : Patterns) (rest : Bytes) : regexpStr p ('\'' :: rest) = rest := rfl

/-- is the last character of `stem ++ [m]` escaped, i.e. does `stem` end in an odd run of backslashes -/
def endsEscaped (stem : Bytes) : Bool := isEscaped (stem ++ ['x']) stem.length

private theorem isEscaped_snoc (stem : Bytes) (m : Char) : isEscaped (stem ++ [m]) ((stem ++ [m]).length - 1) = endsEscaped stem := by
  unfold endsEscaped isEscaped
  simp

/-- **C04 (suffix markers).** A word `stem@` / `stem~` whose marker is not escaped becomes the interleaved stem
    followed by evasion pattern and (no-space) suffix pattern — or just the interleaved stem when that suffix
    pattern is empty. -/
theorem C04_marker (p : Patterns) (stem : Bytes) (m : Char) (hm : m = '@' ∨ m = '~') (hne : stem ≠ [])
    (hq : stem.head? ≠ some '\'') (hesc : endsEscaped stem = false) :
    regexpStr p (stem ++ [m]) =
      interleave p.evasion stem ++
        (if (if m = '@' then p.suffix else p.noSpaceSuffix).isEmpty then []
         else p.evasion ++ (if m = '@' then p.suffix else p.noSpaceSuffix)) := by
  obtain ⟨c, cs, rfl⟩ : ∃ c cs, stem = c :: cs := by
    cases stem with
    | nil => exact absurd rfl hne
    | cons c cs => exact ⟨c, cs, rfl⟩
  have hc : c ≠ '\'' := by simpa using hq
  have hlen : ¬ ((c :: cs) ++ [m]).length < 2 := by simp
  unfold regexpStr
  have hshape : (c :: cs) ++ [m] = c :: (cs ++ [m]) := rfl
  rw [hshape]
  split
  · rename_i rest heq
    simp only [List.cons.injEq] at heq
    exact absurd heq.1 hc
  · simp only
    have hcs : computeSuffix p (c :: (cs ++ [m])) = (c :: cs, if m = '@' then p.suffix else p.noSpaceSuffix) := by
      unfold computeSuffix
      rw [← hshape]
      simp only [hlen, if_false]
      rw [isEscaped_snoc, hesc]
      simp only [Bool.not_false, if_true, List.getLast?_append, List.getLast?_singleton, Option.some_or, List.dropLast_concat]
      rcases hm with rfl | rfl <;> simp
    rw [hcs]

/-- **C04 (escaped marker).** `stem\@` / `stem\~` keep the character: the backslash is dropped, nothing is appended. -/
theorem C04_escaped_marker (p : Patterns) (stem : Bytes) (m : Char) (hq : (stem ++ ['\\', m]).head? ≠ some '\'')
    (hesc : endsEscaped stem = false) :
    regexpStr p (stem ++ ['\\', m]) = interleave p.evasion (stem ++ [m]) := by
  unfold regexpStr
  split
  · rename_i rest heq
    rw [heq] at hq; simp at hq
  · simp only
    have hcs : computeSuffix p (stem ++ ['\\', m]) = (stem ++ [m], []) := by
      unfold computeSuffix
      have hlen : ¬ (stem ++ ['\\', m]).length < 2 := by simp
      simp only [hlen, if_false]
      have hE : isEscaped (stem ++ ['\\', m]) ((stem ++ ['\\', m]).length - 1) = true := by
        have h1 : stem ++ ['\\', m] = (stem ++ ['\\']) ++ [m] := by simp
        rw [h1, isEscaped_snoc]
        -- one more backslash flips the parity
        unfold endsEscaped isEscaped at hesc ⊢
        simp only [List.length_append, List.length_singleton, List.take_left', List.append_assoc] at hesc ⊢
        have e1 : List.take (stem.length + 1) (stem ++ (['\\'] ++ ['x'])) = stem ++ ['\\'] := by
          rw [← List.append_assoc]
          have : stem.length + 1 = (stem ++ ['\\']).length := by simp
          rw [this]; exact List.take_left' rfl
        have e0 : List.take stem.length (stem ++ ['x']) = stem := List.take_left' rfl
        rw [e1, List.reverse_append]
        simp only [List.reverse_singleton, List.singleton_append, List.takeWhile, beq_self_eq_true, List.length_cons]
        rcases Nat.mod_two_eq_zero_or_one ((List.takeWhile (fun x => x == '\\') stem.reverse).length) with h | h
        · have : ((List.takeWhile (fun x => x == '\\') stem.reverse).length + 1) % 2 = 1 := by omega
          simp [this]
        · rw [h] at hesc; simp at hesc
      rw [hE]
      simp only [Bool.not_true, Bool.false_eq_true, if_false]
      have t1 : List.take ((stem ++ ['\\', m]).length - 2) (stem ++ ['\\', m]) = stem := by
        have : (stem ++ ['\\', m]).length - 2 = stem.length := by simp
        rw [this]; exact List.take_left' rfl
      have t2 : List.drop ((stem ++ ['\\', m]).length - 1) (stem ++ ['\\', m]) = [m] := by
        have h1 : stem ++ ['\\', m] = (stem ++ ['\\']) ++ [m] := by simp
        have : (stem ++ ['\\', m]).length - 1 = (stem ++ ['\\']).length := by simp
        rw [this, h1]; exact List.drop_left' rfl
      rw [t1, t2]
    rw [hcs]
    simp

/-- **C04 (plain word).** A word that neither starts with `'` nor ends in a marker is just interleaved. -/
theorem C04_plain_word (p : Patterns) (w : Bytes) (hq : w.head? ≠ some '\'')
    (hlast : ∀ c, w.getLast? = some c → c ≠ '@' ∧ c ≠ '~') (hesc : isEscaped w (w.length - 1) = false) :
    regexpStr p w = interleave p.evasion w := by
  unfold regexpStr
  split
  · simp at hq
  · simp only
    have hcs : computeSuffix p w = (w, []) := by
      unfold computeSuffix
      split
      · rfl
      · rw [hesc]
        simp only [Bool.not_false, if_true]
        cases hl : w.getLast? with
        | none => rfl
        | some c =>
          obtain ⟨h1, h2⟩ := hlast c hl
          split
          · rename_i heq; simp only [Option.some.injEq] at heq; exact absurd heq h1
          · rename_i heq; simp only [Option.some.injEq] at heq; exact absurd heq h2
          · rfl
    rw [hcs]
    simp

/-- non-vacuity on the CRS-like unix patterns: `ls` interleaved, `cat@` with suffix, `a.b-c d` escaped -/
example :
    regexpStr ⟨"[x]*".toList, "S".toList, "N".toList⟩ "ls".toList = "l[x]*s".toList ∧
    regexpStr ⟨"[x]*".toList, "S".toList, "N".toList⟩ "cat@".toList = "c[x]*a[x]*t[x]*S".toList ∧
    regexpStr ⟨"[x]*".toList, "S".toList, "N".toList⟩ "py~".toList = "p[x]*y[x]*N".toList ∧
    regexpStr ⟨"[x]*".toList, "S".toList, "N".toList⟩ "a\\@".toList = "a[x]*@".toList ∧
    regexpStr ⟨[], [], []⟩ "a.b-c d@".toList = "a\\.b\\-c\\s+d".toList := by
  decide

end Crs.Props
