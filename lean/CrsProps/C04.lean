import Crs.Assemble
namespace Crs.Props
theorem C04_placeholder : True := trivial
end Crs.Props
