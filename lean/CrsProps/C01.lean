/-
  C01 — the generated regex matches exactly what the plain reading of the program matches.

  PARTIAL. What is proved here is the *structure layer*: the flat, line-by-line stack machine of `Operator.assemble`
  (processor stack, `startPreprocessor`, `endPreprocessor`, `Consume`) computes exactly what a recursive tree
  evaluator computes that has no stack at all — a block's body is evaluated in a fresh processor of its own and its
  completed result is handed to the enclosing processor as lines (`C01_assemble_refines_tree`, for every engine,
  configuration, stash and every well-nested program of any depth), hence `generate` is the tree evaluation followed by
  `complete` (`C01_generate_is_tree_evaluation`); plus the equations of the plain reading the evaluator satisfies:
  entries accumulate into a segment (`C01_entries_accumulate`), a segment is closed into `(?:` join of its entries `)`
  and appended to what came before (`C01_mark_closes_segment`), a stored name holds the concatenation so far and a
  recall appends it (`C01_store`, `C01_recall`), a finished block hands over `(?:output)(?:segment)`
  (`C01_block_result`).
  NOT proved: that the text so built *denotes* the union / concatenation the plain reading prescribes, and that the
  final simplification and the six clean-up passes preserve the language. That needs a semantics of regex text and
  laws of the external engine (rassemble-go, Go regexp/syntax); it is evaluated on the implementation by the language
  oracle (plain.go, reoracle.go), with the engine-caused exceptions D17, D24, D25, D26 listed as known findings.
-/
import Crs.Tree
import CrsProofs.Tree
namespace Crs.Props
open Crs Crs.Pat Crs.Asm Crs.Tree

/-- **C01 (structure).** On every well-nested program the stack machine and the tree evaluator agree: same stash,
    same top-level processor, same fault — for every engine and configuration. -/
theorem C01_assemble_refines_tree (E : Engine) (cfg : Config) (items : List Item) (hw : wfItems items = true)
    (st : Stash) (cur : Proc) :
    runLines E cfg st [cur] (flattenItems items) =
      (match evalItems E cfg st cur items with
       | .error e => .error e
       | .ok (st', cur') => .ok (st', [cur'])) := by
  have := runLines_items E cfg items hw st cur [] []
  simp only [List.append_nil] at this
  rw [this]
  cases evalItems E cfg st cur items with
  | error e => rfl
  | ok r => obtain ⟨a, b⟩ := r; simp [runLines]

/-- `generate` in tree form: parse, evaluate the tree, complete -/
def generateTree (E : Engine) (cfg : Config) (flags : List Char) (prefixes suffixes : List Bytes) (items : List Item) : Except Fault Bytes :=
  match evalItems E cfg [] (.assemble [] []) items with
  | .error e => .error e
  | .ok (stash, top) =>
    match procComplete E top with
    | .error e => .error e
    | .ok lines => complete E stash flags prefixes suffixes lines

/-- **C01 (generate is the tree evaluation).** Whenever the parsed text of a program is the flattening of a
    well-nested item tree, `generate` returns what the tree evaluation returns. -/
theorem C01_generate_is_tree_evaluation (E : Engine) (fs : Parser.Fs) (cfg : Config) (o1 o2 : Parser.Ord) (input : Bytes)
    (pst : Parser.PState) (items : List Item)
    (hparse : Parser.parse fs o1 o2 Parser.defaultFuel [] input = .ok pst)
    (hitems : scanLines pst.out = flattenItems items) (hw : wfItems items = true) :
    generate E fs cfg o1 o2 input = generateTree E cfg pst.flags pst.prefixes pst.suffixes items := by
  unfold generate generateTree
  rw [hparse]
  simp only [hitems, C01_assemble_refines_tree E cfg items hw [] (.assemble [] [])]
  cases evalItems E cfg [] (.assemble [] []) items with
  | error e => rfl
  | ok r =>
    obtain ⟨stash, top⟩ := r
    simp only
    cases procComplete E top with
    | error e => rfl
    | ok lines =>
      simp only
      cases complete E stash pst.flags pst.prefixes pst.suffixes lines with
      | error e => rfl
      | ok r => simp

/-! ### the equations of the plain reading -/

def isEntry (l : Bytes) : Bool := (assembleInput? l).isNone && (assembleOutput? l).isNone

/-- entries accumulate into the current segment, nothing else changes -/
theorem C01_entries_accumulate (E : Engine) (cfg : Config) (st : Stash) (ls : List Bytes) (out : Bytes) (es : List Bytes)
    (he : ∀ e ∈ es, isEntry e = true) :
    evalItems E cfg st (.assemble ls out) (es.map Item.line) = .ok (st, .assemble (ls ++ es) out) := by
  induction es generalizing ls with
  | nil => simp [evalItems]
  | cons e es ih =>
    have h := he e (by simp)
    simp only [isEntry, Bool.and_eq_true, Option.isNone_iff_eq_none] at h
    simp only [List.map_cons, evalItems, evalItem, procLine, assembleLine, h.1, h.2]
    rw [ih (ls ++ [e]) (fun x hx => he x (by simp [hx]))]
    simp [List.append_assoc]

/-- `##!=>` closes a segment of two or more entries: the group of their join is appended to the text so far -/
theorem C01_mark_closes_segment (E : Engine) (cfg : Config) (st : Stash) (e1 e2 : Bytes) (es : List Bytes) (out joined : Bytes)
    (hj : E.join (e1 :: e2 :: es) = .ok joined) :
    evalItem E cfg st (.assemble (e1 :: e2 :: es) out) (.line b!"##!=>") =
      .ok (st, .assemble [] (out ++ b!"(?:" ++ joined ++ b!")")) := by
  have h1 : assembleInput? b!"##!=>" = none := by decide
  have h2 : assembleOutput? b!"##!=>" = some [] := by decide
  simp [evalItem, procLine, assembleLine, h1, h2, appendPlain, runAssemble, hj, List.append_assoc]

/-- `##!=< name` stores the text so far (with the open segment closed) under the name and starts afresh -/
theorem C01_store (E : Engine) (cfg : Config) (st : Stash) (out : Bytes) :
    evalItem E cfg st (.assemble [] out) (.line b!"##!=< name") =
      .ok (st.set b!"name" out, .assemble [] []) := by
  have h1 : assembleInput? b!"##!=< name" = some b!"name" := by decide
  simp [evalItem, procLine, assembleLine, h1, appendPlain, runAssemble]

/-- `##!=> name` appends what was stored under the name -/
theorem C01_recall (E : Engine) (cfg : Config) (st : Stash) (out stored : Bytes)
    (hs : Parser.assocLookup b!"name" st = some stored) :
    evalItem E cfg st (.assemble [] out) (.line b!"##!=> name") = .ok (st, .assemble [] (out ++ stored)) := by
  have h1 : assembleInput? b!"##!=> name" = none := by decide
  have h2 : assembleOutput? b!"##!=> name" = some b!"name" := by decide
  simp [evalItem, procLine, assembleLine, h1, h2, appendPlain, runAssemble, hs]

/-- a finished assemble block hands its parent one line: `(?:text so far)(?:join of the open segment)`;
    the parent treats that line as an entry -/
theorem C01_block_result (E : Engine) (e1 : Bytes) (es : List Bytes) (out joined : Bytes)
    (hj : E.join (e1 :: es) = .ok joined) (ho : out ≠ []) :
    procComplete E (.assemble (e1 :: es) out) = .ok [b!"(?:" ++ out ++ b!")(?:(?:" ++ joined ++ b!"))"] := by
  have : out.isEmpty = false := by cases out with | nil => exact absurd rfl ho | cons _ _ => rfl
  simp [procComplete, runAssemble, hj, wrapCompleted, this]

/-! ### names: any text, kept whole, and never confused with another -/

/-- the name of a store line is everything after the marker and the white space behind it, to the end of the line:
    dots, blanks and any other character are part of the name -/
theorem C01_store_name_is_rest_of_line (name : Bytes) (hn : dropWs name = name) :
    assembleInput? (b!"##!=< " ++ name) = some name := by
  have : dropWs (' ' :: name) = name := by
    have : isWs ' ' = true := by decide
    simp only [dropWs, List.dropWhile_cons, this, if_true]; exact hn
  simp [assembleInput?, dropWs, stripPrefix?, isWs] at *
  simpa [dropWs] using hn

theorem C01_recall_name_is_rest_of_line (name : Bytes) (hn : dropWs name = name) :
    assembleInput? (b!"##!=> " ++ name) = none ∧ assembleOutput? (b!"##!=> " ++ name) = some name := by
  constructor
  · simp [assembleInput?, dropWs, stripPrefix?, isWs]
  · simp [assembleOutput?, dropWs, stripPrefix?, isWs] at *
    simpa [dropWs] using hn

/-- **`##!=< NAME`, any name.** The text so far goes under exactly that name. -/
theorem C01_store_any (E : Engine) (cfg : Config) (st : Stash) (out name : Bytes)
    (hn : dropWs name = name) (hne : name ≠ []) :
    evalItem E cfg st (.assemble [] out) (.line (b!"##!=< " ++ name)) =
      .ok (st.set name out, .assemble [] []) := by
  have h1 := C01_store_name_is_rest_of_line name hn
  have h1' : assembleInput? ('#' :: '#' :: '!' :: '=' :: '<' :: ' ' :: name) = some name := by simpa using h1
  simp [evalItem, procLine, assembleLine, h1', hne, appendPlain, runAssemble]

/-- **`##!=> NAME`, any name.** What was stored under exactly that name is appended. -/
theorem C01_recall_any (E : Engine) (cfg : Config) (st : Stash) (out stored name : Bytes)
    (hn : dropWs name = name) (hne : name ≠ [])
    (hs : Parser.assocLookup name st = some stored) :
    evalItem E cfg st (.assemble [] out) (.line (b!"##!=> " ++ name)) = .ok (st, .assemble [] (out ++ stored)) := by
  obtain ⟨h1, h2⟩ := C01_recall_name_is_rest_of_line name hn
  have h1' : assembleInput? ('#' :: '#' :: '!' :: '=' :: '>' :: ' ' :: name) = none := by simpa using h1
  have h2' : assembleOutput? ('#' :: '#' :: '!' :: '=' :: '>' :: ' ' :: name) = some name := by simpa using h2
  simp [evalItem, procLine, assembleLine, h1', h2', hne, appendPlain, runAssemble, hs]

/-- what is stored under a name is what a recall of that name finds -/
theorem C01_stash_get_set (st : Stash) (n v : Bytes) : Parser.assocLookup n (st.set n v) = some v := by
  simp [Stash.set, Parser.assocLookup]

/-- **two different names never share a slot**, however much of their spelling they share -/
theorem C01_names_do_not_collide (st : Stash) (n1 n2 v : Bytes) (h : n1 ≠ n2) :
    Parser.assocLookup n2 (st.set n1 v) = Parser.assocLookup n2 st := by
  have hne : (n1 == n2) = false := by simpa using h
  simp only [Stash.set, Parser.assocLookup, hne, Bool.false_eq_true, if_false]
  induction st with
  | nil => rfl
  | cons p rest ih =>
    obtain ⟨k, w⟩ := p
    by_cases hk : k = n1
    · subst hk
      simp only [List.filter_cons, bne_self_eq_false, Bool.false_eq_true, if_false, Parser.assocLookup, hne, ih]
    · have : (k != n1) = true := by simpa using hk
      simp only [List.filter_cons, this, if_true, Parser.assocLookup, ih]

example : Parser.assocLookup b!"grp.2" (Stash.set (Stash.set [] b!"grp.2" b!"cd") b!"grp.1" b!"ab") = some b!"cd" := by decide

/-! ### language layer, under explicit hypotheses about the external engine (hypotheses, never axioms)

  `den t` is the language the engine's parser gives the text `t` (none: does not parse). Two laws are assumed of the
  engine, as a structure the theorem quantifies over:
  (J) a successful `join` of lines denotes the union of what the lines denote;
  (G) a concatenation of groups `(?:t₁)(?:t₂)…` denotes the product of what the `tᵢ` denote.
  Under them, a block of segments separated by `##!=>` hands its parent a line denoting the product over the segments
  of the union over each segment's entries — the plain reading of that block — for any number of segments and entries. -/

abbrev Lang := List Char → Prop

/-- two lists related element by element, in order -/
inductive Zip {α β} (R : α → β → Prop) : List α → List β → Prop where
  | nil : Zip R [] []
  | cons {a b as bs} : R a b → Zip R as bs → Zip R (a :: as) (b :: bs)

def Lang.union (Ls : List Lang) : Lang := fun w => ∃ L ∈ Ls, L w
def Lang.concat (A B : Lang) : Lang := fun w => ∃ u v, w = u ++ v ∧ A u ∧ B v
def Lang.prod : List Lang → Lang
  | [] => fun w => w = []
  | L :: Ls => Lang.concat L (Lang.prod Ls)

def group (t : Bytes) : Bytes := b!"(?:" ++ t ++ b!")"

structure EngineSem (E : Engine) where
  den : Bytes → Option Lang
  join_den : ∀ (ls : List Bytes) (t : Bytes), E.join ls = .ok t → ∃ Ls, ls.mapM den = some Ls ∧ den t = some (Lang.union Ls)
  groups_den : ∀ (ts : List Bytes) (Ls : List Lang), ts.mapM den = some Ls → den ((ts.map group).flatten) = some (Lang.prod Ls)

/-- the items of a block made of segments, each closed by `##!=>` -/
def segmentItems : List (List Bytes) → List Item
  | [] => []
  | seg :: rest => seg.map Item.line ++ [Item.line b!"##!=>"] ++ segmentItems rest

theorem evalItems_append (E : Engine) (cfg : Config) (st : Stash) (p : Proc) (a b : List Item) :
    evalItems E cfg st p (a ++ b) =
      (match evalItems E cfg st p a with
       | .error e => .error e
       | .ok (st', p') => evalItems E cfg st' p' b) := by
  induction a generalizing st p with
  | nil => simp [evalItems]
  | cons i is ih =>
    simp only [List.cons_append, evalItems]
    cases evalItem E cfg st p i with
    | error e => rfl
    | ok r => obtain ⟨st', p'⟩ := r; exact ih st' p'

/-- closing a non-empty segment of entries appends the group of its join -/
theorem mark_closes (E : Engine) (cfg : Config) (st : Stash) (seg : List Bytes) (out joined : Bytes)
    (hne : seg ≠ []) (hj : E.join seg = .ok joined) :
    evalItem E cfg st (.assemble seg out) (.line b!"##!=>") = .ok (st, .assemble [] (out ++ group joined)) := by
  have h1 : assembleInput? b!"##!=>" = none := by decide
  have h2 : assembleOutput? b!"##!=>" = some [] := by decide
  have hemp : seg.isEmpty = false := by cases seg with | nil => exact absurd rfl hne | cons _ _ => rfl
  cases seg with
  | nil => exact absurd rfl hne
  | cons e es =>
    cases es with
    | nil =>
      simp [evalItem, procLine, assembleLine, h1, h2, appendPlain, runAssemble, hj, group, List.append_assoc]
    | cons e2 es =>
      simp [evalItem, procLine, assembleLine, h1, h2, appendPlain, runAssemble, hj, group, List.append_assoc]

/-- running the segments: the text so far grows by one group per segment -/
theorem evalItems_segments (E : Engine) (cfg : Config) (st : Stash) (segs : List (List Bytes)) (joins : List Bytes) (out : Bytes)
    (hent : ∀ seg ∈ segs, seg ≠ [] ∧ ∀ e ∈ seg, isEntry e = true)
    (hj : Zip (fun seg j => E.join seg = .ok j) segs joins) :
    evalItems E cfg st (.assemble [] out) (segmentItems segs) = .ok (st, .assemble [] (out ++ (joins.map group).flatten)) := by
  induction hj generalizing out with
  | nil => simp [segmentItems, evalItems]
  | @cons seg j segs' joins' hseg _ ih =>
    obtain ⟨hne, he⟩ := hent seg (by simp)
    simp only [segmentItems, List.append_assoc]
    rw [evalItems_append, C01_entries_accumulate E cfg st [] out seg he]
    simp only [List.nil_append, List.cons_append, evalItems, mark_closes E cfg st seg out j hne hseg]
    rw [ih (out ++ group j) (fun s hs => hent s (by simp [hs]))]
    simp [List.append_assoc]

theorem Lang.prod_single (L : Lang) (w : List Char) : Lang.prod [L] w ↔ L w := by
  simp only [Lang.prod, Lang.concat]
  constructor
  · rintro ⟨u, v, rfl, hu, rfl⟩; simpa using hu
  · intro h; exact ⟨w, [], by simp, h, rfl⟩

/-- **C01 (language of a block of segments, under the engine laws).** A block `seg₁ ##!=> seg₂ ##!=> … segₖ ##!=>`
    completes to one line, and that line denotes exactly the words `w₁w₂…wₖ` with each `wᵢ` matched by some entry of
    `segᵢ` — for any number of segments and entries. -/
theorem C01_segments_language (E : Engine) (S : EngineSem E) (cfg : Config) (st : Stash)
    (segs : List (List Bytes)) (joins : List Bytes) (hk : segs ≠ [])
    (hent : ∀ seg ∈ segs, seg ≠ [] ∧ ∀ e ∈ seg, isEntry e = true)
    (hj : Zip (fun seg j => E.join seg = .ok j) segs joins) :
    ∃ st' q line Ls,
      evalItems E cfg st (.assemble [] []) (segmentItems segs) = .ok (st', q) ∧
      procComplete E q = .ok [line] ∧
      Zip (fun seg L => ∃ Es, seg.mapM S.den = some Es ∧ L = Lang.union Es) segs Ls ∧
      ∃ D, S.den line = some D ∧ ∀ w, D w ↔ Lang.prod Ls w := by
  have hev := evalItems_segments E cfg st segs joins [] hent hj
  simp only [List.nil_append] at hev
  -- what each join denotes
  have hden : ∃ Ls, joins.mapM S.den = some Ls ∧
      Zip (fun seg L => ∃ Es, seg.mapM S.den = some Es ∧ L = Lang.union Es) segs Ls := by
    clear hev hk hent
    induction hj with
    | nil => exact ⟨[], rfl, .nil⟩
    | @cons seg j segs' joins' hseg _ ih =>
      obtain ⟨Ls, h1, h2⟩ := ih
      obtain ⟨Es, e1, e2⟩ := S.join_den seg j hseg
      refine ⟨Lang.union Es :: Ls, ?_, .cons ⟨Es, e1, rfl⟩ h2⟩
      simp [List.mapM_cons, e2, h1]
  obtain ⟨Ls, hLs, hrel⟩ := hden
  have hjne : joins ≠ [] := by
    cases hj with
    | nil => exact absurd rfl hk
    | cons _ _ => simp
  have hout : ((joins.map group).flatten) ≠ [] := by
    cases joins with
    | nil => exact absurd rfl hjne
    | cons j js => simp [group]
  have houtE : ((joins.map group).flatten).isEmpty = false := by
    cases h : (joins.map group).flatten with
    | nil => exact absurd h hout
    | cons _ _ => rfl
  refine ⟨st, .assemble [] ((joins.map group).flatten), group ((joins.map group).flatten), Ls, hev, ?_, hrel, ?_⟩
  · simp [procComplete, runAssemble, wrapCompleted, houtE, group]
  · have h1 := S.groups_den joins Ls hLs
    have h2 := S.groups_den [(joins.map group).flatten] [Lang.prod Ls] (by simp [List.mapM_cons, h1])
    simp only [List.map_cons, List.map_nil, List.flatten_cons, List.flatten_nil, List.append_nil] at h2
    exact ⟨_, h2, fun w => Lang.prod_single _ w⟩

/-! ### the language of nested blocks (recursive plain reading), under the engine laws

  A program made of entries, segment marks and nested `assemble` blocks — to any depth — is read recursively:
  an entry denotes what the engine reads in it, a segment the union of its members, a block the product of its
  segments. Under the two laws above and a third one (T: a join of lines that all parse succeeds) the evaluation of
  every such block succeeds and hands its parent exactly one line, which denotes the plain reading of the block. -/

mutual
  inductive Node where
    | entry (e : Bytes)
    /-- segments closed by `##!=>`, then the (possibly empty) open segment before `##!<` -/
    | block (closed : Segs) (last : Seg)
  inductive Seg where
    | nil
    | cons (n : Node) (s : Seg)
  inductive Segs where
    | nil
    | cons (s : Seg) (ss : Segs)
end

def markLine : Bytes := b!"##!=>"
def assembleStart : Bytes := b!"##!> assemble"

mutual
  def Node.items : Node → List Item
    | .entry e => [.line e]
    | .block cl op => [.block assembleStart (Segs.items cl ++ Seg.items op)]
  def Seg.items : Seg → List Item
    | .nil => []
    | .cons n s => Node.items n ++ Seg.items s
  def Segs.items : Segs → List Item
    | .nil => []
    | .cons s ss => Seg.items s ++ [.line markLine] ++ Segs.items ss
end

def Seg.isNil : Seg → Bool
  | .nil => true
  | .cons _ _ => false

def Segs.isNil : Segs → Bool
  | .nil => true
  | .cons _ _ => false

mutual
  /-- the plain reading -/
  def Node.lang (den : Bytes → Option Lang) : Node → Lang
    | .entry e => (den e).getD (fun _ => False)
    | .block cl op => Lang.prod (Segs.langs den cl ++ (if op.isNil then [] else [Lang.union (Seg.langs den op)]))
  def Seg.langs (den : Bytes → Option Lang) : Seg → List Lang
    | .nil => []
    | .cons n s => Node.lang den n :: Seg.langs den s
  def Segs.langs (den : Bytes → Option Lang) : Segs → List Lang
    | .nil => []
    | .cons s ss => Lang.union (Seg.langs den s) :: Segs.langs den ss
end

mutual
  /-- entries are entries the engine can read; closed segments are not empty; a block is not empty -/
  def Node.wf (den : Bytes → Option Lang) : Node → Prop
    | .entry e => isEntry e = true ∧ (den e).isSome = true
    | .block cl op => Segs.wf den cl ∧ Seg.wf den op ∧ (cl.isNil = false ∨ op.isNil = false)
  def Seg.wf (den : Bytes → Option Lang) : Seg → Prop
    | .nil => True
    | .cons n s => Node.wf den n ∧ Seg.wf den s
  def Segs.wf (den : Bytes → Option Lang) : Segs → Prop
    | .nil => True
    | .cons s ss => s.isNil = false ∧ Seg.wf den s ∧ Segs.wf den ss
end

/-- law (T): a join of lines the engine can read succeeds -/
def JoinTotal (E : Engine) (den : Bytes → Option Lang) : Prop :=
  ∀ ls : List Bytes, ls ≠ [] → (∀ l ∈ ls, (den l).isSome = true) → ∃ t, E.join ls = .ok t

theorem Lang.prod_single_eq (L : Lang) : Lang.prod [L] = L :=
  funext fun w => propext (Lang.prod_single L w)

theorem Lang.prod_append_single (Ls : List Lang) (L : Lang) :
    Lang.prod [Lang.prod Ls, L] = Lang.prod (Ls ++ [L]) := by
  induction Ls with
  | nil =>
    funext w; apply propext
    simp only [Lang.prod, Lang.concat, List.nil_append]
    constructor
    · rintro ⟨u, v, rfl, rfl, x, y, rfl, hx, rfl⟩
      exact ⟨x, [], by simp, hx, rfl⟩
    · rintro ⟨x, y, rfl, hx, rfl⟩
      exact ⟨[], x ++ [], by simp, rfl, x, [], by simp, hx, rfl⟩
  | cons A Ls ih =>
    funext w; apply propext
    have ih' := fun w => congrFun ih w
    simp only [List.cons_append, Lang.prod, Lang.concat] at ih' ⊢
    constructor
    · rintro ⟨u, v, rfl, ⟨a, r, rfl, ha, hr⟩, x, y, rfl, hx, rfl⟩
      refine ⟨a, r ++ (x ++ []), by simp, ha, ?_⟩
      have := (ih' (r ++ (x ++ []))).mp ⟨r, x ++ [], rfl, hr, x, [], by simp, hx, rfl⟩
      exact this
    · rintro ⟨a, t, rfl, ha, ht⟩
      obtain ⟨r, v, rfl, hr, x, y, rfl, hx, rfl⟩ := (ih' t).mpr ht
      exact ⟨a ++ r, x ++ [], by simp, ⟨a, r, rfl, ha, hr⟩, x, [], by simp, hx, rfl⟩

theorem mapM_den_append (den : Bytes → Option Lang) (as bs : List Bytes) (As Bs : List Lang)
    (ha : as.mapM den = some As) (hb : bs.mapM den = some Bs) : (as ++ bs).mapM den = some (As ++ Bs) := by
  induction as generalizing As with
  | nil => simp at ha; subst ha; simpa using hb
  | cons a as ih =>
    simp only [List.mapM_cons, Option.bind_eq_bind] at ha
    cases hda : den a with
    | none => simp [hda] at ha
    | some A =>
      simp only [hda, Option.bind_some] at ha
      cases hra : as.mapM den with
      | none => simp [hra] at ha
      | some R =>
        simp only [hra, Option.bind_some, Option.pure_def, Option.some.injEq] at ha
        subst ha
        simp [List.mapM_cons, hda, ih R hra]

theorem mapM_den_isSome (den : Bytes → Option Lang) (ls : List Bytes) (Ls : List Lang) (h : ls.mapM den = some Ls) :
    ∀ l ∈ ls, (den l).isSome = true := by
  induction ls generalizing Ls with
  | nil => intro l hl; simp at hl
  | cons a as ih =>
    simp only [List.mapM_cons, Option.bind_eq_bind] at h
    cases hda : den a with
    | none => simp [hda] at h
    | some A =>
      simp only [hda, Option.bind_some] at h
      cases hra : as.mapM den with
      | none => simp [hra] at h
      | some R =>
        intro l hl
        simp only [List.mem_cons] at hl
        rcases hl with rfl | hl
        · simp [hda]
        · exact ih R hra l hl

/-- a line that starts with a group is an entry of the enclosing block -/
theorem group_line_isEntry (x : Bytes) : isEntry (b!"(?:" ++ x) = true := by
  simp [isEntry, assembleInput?, assembleOutput?, dropWs, isWs, stripPrefix?]

/-- consuming the single result line of a finished block -/
theorem consume_group_line (E : Engine) (cfg : Config) (st : Stash) (lines : List Bytes) (out x : Bytes) :
    procConsume E cfg st (.assemble lines out) [b!"(?:" ++ x] = .ok (st, .assemble (lines ++ [b!"(?:" ++ x]) out) := by
  have h := group_line_isEntry x
  simp only [isEntry, Bool.and_eq_true, Option.isNone_iff_eq_none] at h
  have h1 : assembleInput? ('(' :: '?' :: ':' :: x) = none := by simpa using h.1
  have h2 : assembleOutput? ('(' :: '?' :: ':' :: x) = none := by simpa using h.2
  simp [procConsume, procLine, assembleLine, h1, h2]

theorem startProc_assemble : startProc? assembleStart = some (.assemble [] []) := by
  have h : processorStart? assembleStart = some (b!"assemble", []) := by decide
  simp [startProc?, h]

/-- closing a segment whose lines the engine can read -/
theorem mark_closes' (E : Engine) (S : EngineSem E) (hT : JoinTotal E S.den) (cfg : Config) (st : Stash)
    (seg : List Bytes) (Ls : List Lang) (out : Bytes) (hne : seg ≠ []) (hd : seg.mapM S.den = some Ls) :
    ∃ j, evalItem E cfg st (.assemble seg out) (.line markLine) = .ok (st, .assemble [] (out ++ group j)) ∧
      S.den j = some (Lang.union Ls) := by
  obtain ⟨j, hj⟩ := hT seg hne (mapM_den_isSome S.den seg Ls hd)
  obtain ⟨Ls', h1, h2⟩ := S.join_den seg j hj
  rw [hd] at h1
  simp only [Option.some.injEq] at h1
  subst h1
  exact ⟨j, mark_closes E cfg st seg out j hne hj, h2⟩

mutual
  /-- a node inside a segment contributes exactly one line, which denotes its plain reading -/
  theorem node_lang (E : Engine) (S : EngineSem E) (hT : JoinTotal E S.den) (cfg : Config) (st : Stash) :
      ∀ (n : Node), Node.wf S.den n → ∀ (lines : List Bytes) (out : Bytes),
        ∃ r : Bytes, evalItems E cfg st (.assemble lines out) (Node.items n) = .ok (st, .assemble (lines ++ [r]) out) ∧
          S.den r = some (Node.lang S.den n)
    | .entry e, hw, lines, out => by
      obtain ⟨he, hd⟩ := hw
      refine ⟨e, ?_, ?_⟩
      · have := C01_entries_accumulate E cfg st lines out [e] (by intro x hx; simp at hx; subst hx; exact he)
        simpa [Node.items] using this
      · cases h : S.den e with
        | none => simp [h] at hd
        | some L => simp [Node.lang, h]
    | .block cl op, hw, lines, out => by
      obtain ⟨hcl, hop, hne⟩ := hw
      have hcons : ∀ x : Bytes, procConsume E cfg st (.assemble lines out) ['(' :: '?' :: ':' :: x] =
          .ok (st, .assemble (lines ++ ['(' :: '?' :: ':' :: x]) out) :=
        fun x => by simpa using consume_group_line E cfg st lines out x
      obtain ⟨joins, hev1, hd1⟩ := segs_lang E S hT cfg st cl hcl []
      obtain ⟨rs, hev2, hd2, hlen⟩ := seg_lang E S hT cfg st op hop [] ((joins.map group).flatten)
      simp only [List.nil_append] at hev1 hev2
      -- the body
      have hbody : evalItems E cfg st (.assemble [] []) (Segs.items cl ++ Seg.items op) =
          .ok (st, .assemble rs ((joins.map group).flatten)) := by
        rw [evalItems_append, hev1]; exact hev2
      -- completion
      have hjoins := S.groups_den joins (Segs.langs S.den cl) hd1
      by_cases hopn : op.isNil = true
      · -- no open segment: the closed ones are not empty
        have hrs : rs = [] := by
          cases op with
          | nil =>
            have : rs.length = 0 := by simpa [Seg.langs] using hlen
            exact List.length_eq_zero_iff.mp this
          | cons _ _ => simp [Seg.isNil] at hopn
        subst hrs
        have hcln : cl.isNil = false := by
          rcases hne with h | h
          · exact h
          · rw [hopn] at h; exact absurd h (by simp)
        have hjne : joins ≠ [] := by
          cases cl with
          | nil => simp [Segs.isNil] at hcln
          | cons s ss =>
            intro e; subst e
            simp [Segs.langs] at hd1
        have houtE : ((joins.map group).flatten).isEmpty = false := by
          cases joins with
          | nil => exact absurd rfl hjne
          | cons j js => simp [group]
        refine ⟨group ((joins.map group).flatten), ?_, ?_⟩
        · simp only [Node.items, evalItems, evalItem, startProc_assemble, hbody]
          have hc : procComplete E (.assemble [] ((joins.map group).flatten)) = .ok [group ((joins.map group).flatten)] := by
            simp [procComplete, runAssemble, wrapCompleted, houtE, group]
          simp only [hc]
          simp [group, List.append_assoc, hcons]
        · have h2 := S.groups_den [(joins.map group).flatten] [Lang.prod (Segs.langs S.den cl)] (by simp [List.mapM_cons, hjoins])
          simp only [List.map_cons, List.map_nil, List.flatten_cons, List.flatten_nil, List.append_nil] at h2
          rw [h2, Lang.prod_single_eq]
          simp [Node.lang, hopn]
      · have hopn' : op.isNil = false := by simpa using hopn
        have hrsne : rs ≠ [] := by
          cases op with
          | nil => simp [Seg.isNil] at hopn'
          | cons _ _ =>
            intro e; subst e
            simp [Seg.langs] at hlen
        obtain ⟨jo, hjo⟩ := hT rs hrsne (mapM_den_isSome S.den rs _ hd2)
        obtain ⟨Ls', h1, h2⟩ := S.join_den rs jo hjo
        rw [hd2] at h1
        simp only [Option.some.injEq] at h1
        subst h1
        have hrsE : rs.isEmpty = false := by cases rs with | nil => exact absurd rfl hrsne | cons _ _ => rfl
        have hgj : S.den (group jo) = some (Lang.union (Seg.langs S.den op)) := by
          have := S.groups_den [jo] [Lang.union (Seg.langs S.den op)] (by simp [List.mapM_cons, h2])
          simp only [List.map_cons, List.map_nil, List.flatten_cons, List.flatten_nil, List.append_nil] at this
          rw [this, Lang.prod_single_eq]
        by_cases hjn : joins = []
        · -- only the open segment
          subst hjn
          have hcl0 : Segs.langs S.den cl = [] := by simpa using hd1.symm
          refine ⟨group (group jo), ?_, ?_⟩
          · simp only [Node.items, evalItems, evalItem, startProc_assemble, hbody]
            have hc : procComplete E (.assemble rs ((([] : List Bytes).map group).flatten)) = .ok [group (group jo)] := by
              simp [procComplete, runAssemble, hrsE, hjo, wrapCompleted, group]
            simp only [hc]
            simp [group, List.append_assoc, hcons]
          · have := S.groups_den [group jo] [Lang.union (Seg.langs S.den op)] (by simp [List.mapM_cons, hgj])
            simp only [List.map_cons, List.map_nil, List.flatten_cons, List.flatten_nil, List.append_nil] at this
            rw [this, Lang.prod_single_eq]
            simp [Node.lang, hopn', hcl0, Lang.prod_single_eq]
        · have houtE : ((joins.map group).flatten).isEmpty = false := by
            cases joins with
            | nil => exact absurd rfl hjn
            | cons j js => simp [group]
          refine ⟨group ((joins.map group).flatten) ++ group (group jo), ?_, ?_⟩
          · simp only [Node.items, evalItems, evalItem, startProc_assemble, hbody]
            have hc : procComplete E (.assemble rs ((joins.map group).flatten)) =
                .ok [group ((joins.map group).flatten) ++ group (group jo)] := by
              simp [procComplete, runAssemble, hrsE, hjo, wrapCompleted, houtE, group, List.append_assoc]
            simp only [hc]
            simp [group, List.append_assoc, hcons]
          · have := S.groups_den [(joins.map group).flatten, group jo]
              [Lang.prod (Segs.langs S.den cl), Lang.union (Seg.langs S.den op)] (by simp [List.mapM_cons, hjoins, hgj])
            simp only [List.map_cons, List.map_nil, List.flatten_cons, List.flatten_nil, List.append_nil] at this
            rw [this, Lang.prod_append_single]
            simp [Node.lang, hopn']
  /-- the members of a segment, one line each -/
  theorem seg_lang (E : Engine) (S : EngineSem E) (hT : JoinTotal E S.den) (cfg : Config) (st : Stash) :
      ∀ (s : Seg), Seg.wf S.den s → ∀ (lines : List Bytes) (out : Bytes),
        ∃ rs : List Bytes, evalItems E cfg st (.assemble lines out) (Seg.items s) = .ok (st, .assemble (lines ++ rs) out) ∧
          rs.mapM S.den = some (Seg.langs S.den s) ∧ rs.length = (Seg.langs S.den s).length
    | .nil, _, lines, out => ⟨[], by simp [Seg.items, evalItems], by simp [Seg.langs], by simp [Seg.langs]⟩
    | .cons n s, hw, lines, out => by
      obtain ⟨hn, hs⟩ := hw
      obtain ⟨r, hev1, hd1⟩ := node_lang E S hT cfg st n hn lines out
      obtain ⟨rs, hev2, hd2, hl2⟩ := seg_lang E S hT cfg st s hs (lines ++ [r]) out
      refine ⟨r :: rs, ?_, ?_, ?_⟩
      · simp only [Seg.items]
        rw [evalItems_append, hev1]
        simpa [List.append_assoc] using hev2
      · simp [List.mapM_cons, hd1, hd2, Seg.langs]
      · simp [Seg.langs, hl2]
  /-- closed segments: one group per segment is appended to the text so far -/
  theorem segs_lang (E : Engine) (S : EngineSem E) (hT : JoinTotal E S.den) (cfg : Config) (st : Stash) :
      ∀ (ss : Segs), Segs.wf S.den ss → ∀ (out : Bytes),
        ∃ joins : List Bytes, evalItems E cfg st (.assemble [] out) (Segs.items ss) = .ok (st, .assemble [] (out ++ (joins.map group).flatten)) ∧
          joins.mapM S.den = some (Segs.langs S.den ss)
    | .nil, _, out => ⟨[], by simp [Segs.items, evalItems], by simp [Segs.langs]⟩
    | .cons s ss, hw, out => by
      obtain ⟨hsn, hs, hss⟩ := hw
      obtain ⟨rs, hev1, hd1, hl1⟩ := seg_lang E S hT cfg st s hs [] out
      simp only [List.nil_append] at hev1
      have hrsne : rs ≠ [] := by
        cases s with
        | nil => simp [Seg.isNil] at hsn
        | cons _ _ => intro e; subst e; simp [Seg.langs] at hl1
      obtain ⟨j, hm, hdj⟩ := mark_closes' E S hT cfg st rs _ out hrsne hd1
      obtain ⟨joins, hev2, hd2⟩ := segs_lang E S hT cfg st ss hss (out ++ group j)
      refine ⟨j :: joins, ?_, ?_⟩
      · simp only [Segs.items, List.append_assoc]
        rw [evalItems_append, hev1]
        simp only [List.cons_append, List.nil_append, evalItems, hm]
        simpa [List.append_assoc] using hev2
      · simp [List.mapM_cons, hdj, hd2, Segs.langs]
end

/-- **C01 (language of nested blocks, under the engine laws J, G, T).** Every block of entries, segment marks and
    nested blocks — to any depth, with any number of segments and members — evaluates successfully inside an enclosing
    block and hands it exactly one line; that line denotes the plain reading of the block: the product over its
    segments of the union over their members, members that are blocks read the same way. -/
theorem C01_nested_language (E : Engine) (S : EngineSem E) (hT : JoinTotal E S.den) (cfg : Config) (st : Stash)
    (cl : Segs) (op : Seg) (hw : Node.wf S.den (.block cl op)) (lines : List Bytes) (out : Bytes) :
    ∃ r : Bytes, evalItems E cfg st (.assemble lines out) (Node.items (.block cl op)) = .ok (st, .assemble (lines ++ [r]) out) ∧
      S.den r = some (Node.lang S.den (.block cl op)) :=
  node_lang E S hT cfg st (.block cl op) hw lines out

/-- what such a tree looks like as text: `a`, `b`, `##!=>`, then an inner block with `c` — and it is well nested -/
example :
    let n : Node := .block (.cons (.cons (.entry b!"a") (.cons (.entry b!"b") .nil)) .nil) (.cons (.block .nil (.cons (.entry b!"c") .nil)) .nil)
    flattenItems (Node.items n) = [b!"##!> assemble", b!"a", b!"b", b!"##!=>", b!"##!> assemble", b!"c", b!"##!<", b!"##!<"]
      ∧ wfItems (Node.items n) = true := by decide

/-- non-vacuity: a nested program is well nested and flattens to the expected lines -/
example : wfItems [.line "a".toList, .block "##!> assemble".toList [.line "b".toList, .line "##!=>".toList, .line "c".toList], .line "d".toList] = true
    ∧ flattenItems [.line "a".toList, .block "##!> assemble".toList [.line "b".toList, .line "##!=>".toList, .line "c".toList], .line "d".toList]
      = ["a".toList, "##!> assemble".toList, "b".toList, "##!=>".toList, "c".toList, "##!<".toList, "d".toList] := by decide

end Crs.Props
