import Crs.Assemble
namespace Crs.Props
theorem C01_placeholder : True := trivial
end Crs.Props
