/-
  C05, for every include file — with definitions of its own, prefixes and suffixes, further includes:
  an include line is the same as typing, in its place, the lines the parser makes of the file.

  `C05_include_is_its_text`: if the file `name` parses (as an include file: with an empty table of definitions) to the
  text `text`, then `##!> include name` followed by anything is parsed exactly as the lines of `text` followed by the
  same — provided those lines are, for the parser, what they were when they were written: text (not a directive, a
  comment or a blank line; a definition inside the file can turn an entry into something that looks like a directive,
  and a file with a carriage return inside a line would be cut differently). `C05_scoped_affixes` says what `text` is for
  a file with prefixes or suffixes (a local assemble block), `C05_include_text_complete_lines` that it always consists
  of complete lines.
-/
import CrsProofs.FormatGen
import CrsProofs.FormatIdem
import CrsProps.C05
namespace Crs.Props
open Crs Crs.Pat Crs.Parser Crs.FormatGen Crs.Format

/-- the text an include file contributes consists of complete lines, whatever the file, its definitions and the files
    it includes are -/
theorem C05_include_text_complete_lines (fs : Fs) (o1 o2 : Ord) (fuel : Nat) (name : Bytes) (r : Bytes × Vars)
    (h : parseFile fs o1 o2 fuel name [] = .ok r) : r.1 = [] ∨ ∃ t, r.1 = t ++ ['\n'] :=
  parseFile_lineEnded fs o1 o2 fuel name r h

private theorem unlines_rawLines (text : Bytes) (h : LineEnded text) : unlines (rawLines text) = text := by
  rcases h with rfl | ⟨t, rfl⟩
  · decide
  · have e2 : splitNl (t ++ ['\n']) = splitNl t ++ [[]] := by
      have := splitCh_append_sep' '\n' [] t
      simpa [splitNl, splitCh] using this
    have r2 : rawLines (t ++ ['\n']) = splitNl t := by
      unfold rawLines
      rw [e2]
      simp
    rw [r2, ← joinNl_snoc_nil, ← e2, joinNl_splitNl]

private theorem parseLines_text_lines (fs : Fs) (o1 o2 : Ord) (f : Nat) (L : List Bytes)
    (hL : ∀ x ∈ L, delta fs o1 o2 f x = .ok (.out (x ++ ['\n']))) :
    ∀ st : PState, parseLines fs o1 o2 f st L = .ok { st with out := st.out ++ unlines L } := by
  induction L with
  | nil => intro st; simp [parseLines]
  | cons x L ih =>
    intro st
    rw [parseLines_cons_delta, hL x (by simp)]
    simp only [Delta.apply]
    rw [ih (fun y hy => hL y (by simp [hy]))]
    simp [unlines_cons, List.append_assoc]

/-- **C05 (every include file).** See the head of this file. -/
theorem C05_include_is_its_text (fs : Fs) (o1 o2 : Ord) (fuel : Nat) (st : PState) (line name text : Bytes) (defs : Vars)
    (rest : List Bytes)
    (hi : include? (trimLeftSpTab line) = some (name, []))
    (hp : parseFile fs o1 o2 fuel name [] = .ok (text, defs))
    (hcr : '\r' ∉ text)
    (htext : ∀ x ∈ scanLines text, delta fs o1 o2 fuel x = .ok (.out (x ++ ['\n']))) :
    parseLines fs o1 o2 fuel st (line :: rest) = parseLines fs o1 o2 fuel st (scanLines text ++ rest) := by
  have hle := parseFile_lineEnded fs o1 o2 fuel name _ hp
  -- the include line appends the text
  have hd : delta fs o1 o2 fuel line = .ok (.out text) := by
    obtain ⟨a1, a2, a3, a4, a5, a6⟩ := only_include _ _ hi
    obtain ⟨t, ht⟩ := include?_hash _ _ hi
    have hb : isBlank (trimLeftSpTab line) = false := by rw [ht]; exact isBlank_hash t
    unfold delta deltaV
    simp only [view, hb, a1, a2, hi, buildPairs_nil, hp, Bool.false_eq_true, if_false]
    simp [replaceSuffixes]
  -- typing its lines appends the same text
  have hs : scanLines text = rawLines text := by
    unfold scanLines
    apply map_dropCR_id
    intro l hl hlast
    have hsub : ∀ c ∈ l, c ∈ text := by
      intro c hc
      have h1 : text = unlines (rawLines text) := (unlines_rawLines text hle).symm
      rw [h1]
      unfold unlines
      simp only [List.mem_flatten, List.mem_map]
      exact ⟨l ++ ['\n'], ⟨l, hl, rfl⟩, by simp [hc]⟩
    exact hcr (hsub _ (List.mem_of_getLast? hlast))
  rw [parseLines_cons_delta, hd, parseLines_append, parseLines_text_lines fs o1 o2 fuel _ htext]
  simp only [Delta.apply]
  rw [hs, unlines_rawLines text hle]

/-- non-vacuity: a file with a prefix of its own is included as a local block, whose lines are text for the parser -/
example :
    let fs : Fs := { inc := [(b!"f.ra", b!"##!^ pre\nab\n")] }
    parseFile fs sortedOrd sortedOrd 1 b!"f" [] = .ok (b!"##!> assemble\npre\n##!=>\nab\n##!<\n", []) ∧
    include? (trimLeftSpTab b!"  ##!> include f") = some (b!"f", []) ∧
    '\r' ∉ b!"##!> assemble\npre\n##!=>\nab\n##!<\n" ∧
    ∀ x ∈ scanLines b!"##!> assemble\npre\n##!=>\nab\n##!<\n", delta fs sortedOrd sortedOrd 1 x = .ok (.out (x ++ ['\n'])) := by
  intro fs
  refine ⟨?_, by decide +kernel, by decide +kernel, ?_⟩
  · have hf : fs.find b!"f" = some b!"##!^ pre\nab\n" := by decide +kernel
    have hs : scanLines b!"##!^ pre\nab\n" = [b!"##!^ pre", b!"ab"] := by decide +kernel
    have d1 : delta fs sortedOrd sortedOrd 0 b!"##!^ pre" = .ok (.pfx b!"pre") := by decide +kernel
    have d2 : delta fs sortedOrd sortedOrd 0 b!"ab" = .ok (.out b!"ab\n") := by decide +kernel
    simp only [parseFile, hf, parse, hs, parseLines_cons_delta, d1, d2, Delta.apply, parseLines]
    decide +kernel
  · have hs : scanLines b!"##!> assemble\npre\n##!=>\nab\n##!<\n" = [b!"##!> assemble", b!"pre", b!"##!=>", b!"ab", b!"##!<"] := by decide +kernel
    rw [hs]
    intro x hx
    simp only [List.mem_cons, List.not_mem_nil, or_false] at hx
    rcases hx with rfl | rfl | rfl | rfl | rfl <;> decide +kernel

end Crs.Props
