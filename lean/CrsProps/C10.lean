/-
  C10 — format never changes what a file means or says.

  Model: `Crs.Format.processLine` / `formatLines` / `formatFile` against what the compiler reads in a line
  (`Crs.Parser.parseLines` dispatch, `Crs.Asm.runLines` dispatch).

  Proved here, for every line and every indentation level:
  * the compiler's recognisers give the same answer (same directive, same arguments, or the same plain text)
    on the formatted line as on the original (`C10_view_preserved`), so the parser's step is the same
    (`C10_parser_step_same`); block start lines stay block starts of the same processor with the same argument
    (`C10_block_start_same`);
  * formatting is line by line: no line is dropped, duplicated or reordered (`C10_lines_pointwise`,
    `C10_file_lines`).
  * formatting changes white space only: the formatted line has the same non-white-space characters in the same order
    (`C10_white_space_only`, excluding lines that end in a dangling `--`, known finding D23);
  NOT proved: the lift of the per-line statements through include expansion and the assembler to
  `generate (format b) = generate b` — checked by the oracle (generate before/after on the real binary).
-/
import Crs.Format
import Crs.Assemble
import CrsProofs.FormatFile
import CrsProofs.FormatWs
import CrsProps.C03
import CrsProps.C09
namespace Crs.Props
open Crs Crs.Format Crs.Pat Crs.Parser

/-! ### what the parser reads in a (left-trimmed) line -/

/-- the answers of all recognisers `parseLines` consults, in its own order -/
structure View where
  blank : Bool
  comment : Bool
  definition : Option (Bytes × Bytes)
  incl : Option (Bytes × Bytes)
  inclExcept : Option (Bytes × Bytes × Bytes)
  flags : Option Bytes
  pfx : Option Bytes
  sfx : Option Bytes
  deriving DecidableEq

def view (t : Bytes) : View :=
  { blank := isBlank t, comment := comment? t, definition := definition? t, incl := include? t,
    inclExcept := includeExcept? t, flags := flags? t, pfx := prefix? t, sfx := suffix? t }

/-- no recogniser fires: the line is handed to the assembler as text -/
def View.isText (v : View) : Bool :=
  !v.blank && !v.comment && v.definition.isNone && v.incl.isNone && v.inclExcept.isNone && v.flags.isNone && v.pfx.isNone && v.sfx.isNone

/-- the parser's step depends on the line only through its view, and through its text when no recogniser fires -/
theorem parseLines_congr (fs : Fs) (o1 o2 : Ord) (fuel : Nat) (st : PState) (l1 l2 : Bytes) (rest : List Bytes)
    (hv : view (trimLeftSpTab l1) = view (trimLeftSpTab l2))
    (ht : (view (trimLeftSpTab l1)).isText = true → trimLeftSpTab l1 = trimLeftSpTab l2) :
    parseLines fs o1 o2 fuel st (l1 :: rest) = parseLines fs o1 o2 fuel st (l2 :: rest) := by
  simp only [view, View.mk.injEq] at hv
  obtain ⟨h1, h2, h3, h4, h5, h6, h7, h8⟩ := hv
  simp only [parseLines]
  rw [h1, h2, h3, h4, h5, h6, h7, h8]
  by_cases hb : isBlank (trimLeftSpTab l2) = true
  · simp only [hb, if_true]
  by_cases hc : comment? (trimLeftSpTab l2) = true
  · simp only [hb, hc, if_true, Bool.false_eq_true, if_false]
  simp only [hb, hc, Bool.false_eq_true, if_false]
  cases hd : definition? (trimLeftSpTab l2) with
  | some p => rfl
  | none =>
  cases hi : include? (trimLeftSpTab l2) with
  | some p => rfl
  | none =>
  cases hx : includeExcept? (trimLeftSpTab l2) with
  | some p => rfl
  | none =>
  cases hf : flags? (trimLeftSpTab l2) with
  | some p => rfl
  | none =>
  cases hp : prefix? (trimLeftSpTab l2) with
  | some p => rfl
  | none =>
  cases hs : suffix? (trimLeftSpTab l2) with
  | some p => rfl
  | none =>
    simp only
    have : trimLeftSpTab l1 = trimLeftSpTab l2 := by
      apply ht
      simp only [view, View.isText, h1, h2, h3, h4, h5, h6, h7, h8, hb, hc, hd, hi, hx, hf, hp, hs]
      rfl
    rw [this]

/-! ### at most one recogniser fires (C03), so whichever the formatter found is the one the parser finds -/

theorem only_definition (t : Bytes) (p : Bytes × Bytes) (h : definition? t = some p) :
    comment? t = false ∧ include? t = none ∧ includeExcept? t = none ∧ flags? t = none ∧ prefix? t = none ∧ suffix? t = none := by
  have := C03_classification_unambiguous t
  unfold claims at this
  rw [h] at this
  revert this
  cases comment? t <;> cases include? t <;> cases includeExcept? t <;> cases flags? t <;> cases prefix? t <;> cases suffix? t <;> simp

theorem only_include (t : Bytes) (p : Bytes × Bytes) (h : include? t = some p) :
    comment? t = false ∧ definition? t = none ∧ includeExcept? t = none ∧ flags? t = none ∧ prefix? t = none ∧ suffix? t = none := by
  have := C03_classification_unambiguous t
  unfold claims at this
  rw [h] at this
  revert this
  cases comment? t <;> cases definition? t <;> cases includeExcept? t <;> cases flags? t <;> cases prefix? t <;> cases suffix? t <;> simp

theorem only_includeExcept (t : Bytes) (p : Bytes × Bytes × Bytes) (h : includeExcept? t = some p) :
    comment? t = false ∧ definition? t = none ∧ include? t = none ∧ flags? t = none ∧ prefix? t = none ∧ suffix? t = none := by
  have := C03_classification_unambiguous t
  unfold claims at this
  rw [h] at this
  revert this
  cases comment? t <;> cases definition? t <;> cases include? t <;> cases flags? t <;> cases prefix? t <;> cases suffix? t <;> simp

theorem only_flags (t : Bytes) (p : Bytes) (h : flags? t = some p) :
    comment? t = false ∧ definition? t = none ∧ include? t = none ∧ includeExcept? t = none ∧ prefix? t = none ∧ suffix? t = none := by
  have := C03_classification_unambiguous t
  unfold claims at this
  rw [h] at this
  revert this
  cases comment? t <;> cases definition? t <;> cases include? t <;> cases includeExcept? t <;> cases prefix? t <;> cases suffix? t <;> simp

theorem only_prefix (t : Bytes) (p : Bytes) (h : prefix? t = some p) :
    comment? t = false ∧ definition? t = none ∧ include? t = none ∧ includeExcept? t = none ∧ flags? t = none ∧ suffix? t = none := by
  have := C03_classification_unambiguous t
  unfold claims at this
  rw [h] at this
  revert this
  cases comment? t <;> cases definition? t <;> cases include? t <;> cases includeExcept? t <;> cases flags? t <;> cases suffix? t <;> simp

theorem only_suffix (t : Bytes) (p : Bytes) (h : suffix? t = some p) :
    comment? t = false ∧ definition? t = none ∧ include? t = none ∧ includeExcept? t = none ∧ flags? t = none ∧ prefix? t = none := by
  have := C03_classification_unambiguous t
  unfold claims at this
  rw [h] at this
  revert this
  cases comment? t <;> cases definition? t <;> cases include? t <;> cases includeExcept? t <;> cases flags? t <;> cases prefix? t <;> simp

theorem definition?_hash (l : Bytes) (p : Bytes × Bytes) (h : definition? l = some p) : ∃ t, l = '#' :: t := by
  unfold definition? at h
  split at h
  · simp at h
  · rename_i r hr; exact starts_hash_of_strip _ l r hr

theorem valueLine?_hash (ch : Char) (l v : Bytes) (h : valueLine? ch l = some v) : ∃ t, l = '#' :: t := by
  unfold valueLine? at h
  split at h
  · simp at h
  · rename_i r hr; exact starts_hash_of_strip _ l r hr

/-- two lines on which the same recogniser fires with the same arguments have the same view -/
theorem view_eq_of_definition (a b : Bytes) (p : Bytes × Bytes) (ha : definition? a = some p) (hb : definition? b = some p) :
    view a = view b ∧ (view a).isText = false := by
  obtain ⟨ta, rfl⟩ := definition?_hash a p ha
  obtain ⟨tb, rfl⟩ := definition?_hash b p hb
  obtain ⟨a1, a2, a3, a4, a5, a6⟩ := only_definition _ p ha
  obtain ⟨b1, b2, b3, b4, b5, b6⟩ := only_definition _ p hb
  simp [view, View.isText, isBlank_hash, ha, hb, a1, a2, a3, a4, a5, a6, b1, b2, b3, b4, b5, b6]

theorem view_eq_of_include (a b : Bytes) (p : Bytes × Bytes) (ha : include? a = some p) (hb : include? b = some p) :
    view a = view b ∧ (view a).isText = false := by
  obtain ⟨ta, rfl⟩ := include?_hash a p ha
  obtain ⟨tb, rfl⟩ := include?_hash b p hb
  obtain ⟨a1, a2, a3, a4, a5, a6⟩ := only_include _ p ha
  obtain ⟨b1, b2, b3, b4, b5, b6⟩ := only_include _ p hb
  simp [view, View.isText, isBlank_hash, ha, hb, a1, a2, a3, a4, a5, a6, b1, b2, b3, b4, b5, b6]

theorem view_eq_of_includeExcept (a b : Bytes) (p : Bytes × Bytes × Bytes) (ha : includeExcept? a = some p) (hb : includeExcept? b = some p) :
    view a = view b ∧ (view a).isText = false := by
  obtain ⟨ta, rfl⟩ := includeExcept?_hash a p ha
  obtain ⟨tb, rfl⟩ := includeExcept?_hash b p hb
  obtain ⟨a1, a2, a3, a4, a5, a6⟩ := only_includeExcept _ p ha
  obtain ⟨b1, b2, b3, b4, b5, b6⟩ := only_includeExcept _ p hb
  simp [view, View.isText, isBlank_hash, ha, hb, a1, a2, a3, a4, a5, a6, b1, b2, b3, b4, b5, b6]

theorem view_eq_of_flags (a b : Bytes) (p : Bytes) (ha : flags? a = some p) (hb : flags? b = some p) :
    view a = view b ∧ (view a).isText = false := by
  obtain ⟨ta, rfl⟩ := valueLine?_hash '+' a p ha
  obtain ⟨tb, rfl⟩ := valueLine?_hash '+' b p hb
  obtain ⟨a1, a2, a3, a4, a5, a6⟩ := only_flags _ p ha
  obtain ⟨b1, b2, b3, b4, b5, b6⟩ := only_flags _ p hb
  simp [view, View.isText, isBlank_hash, ha, hb, a1, a2, a3, a4, a5, a6, b1, b2, b3, b4, b5, b6]

theorem view_eq_of_prefix (a b : Bytes) (p : Bytes) (ha : prefix? a = some p) (hb : prefix? b = some p) :
    view a = view b ∧ (view a).isText = false := by
  obtain ⟨ta, rfl⟩ := valueLine?_hash '^' a p ha
  obtain ⟨tb, rfl⟩ := valueLine?_hash '^' b p hb
  obtain ⟨a1, a2, a3, a4, a5, a6⟩ := only_prefix _ p ha
  obtain ⟨b1, b2, b3, b4, b5, b6⟩ := only_prefix _ p hb
  simp [view, View.isText, isBlank_hash, ha, hb, a1, a2, a3, a4, a5, a6, b1, b2, b3, b4, b5, b6]

theorem view_eq_of_suffix (a b : Bytes) (p : Bytes) (ha : suffix? a = some p) (hb : suffix? b = some p) :
    view a = view b ∧ (view a).isText = false := by
  obtain ⟨ta, rfl⟩ := valueLine?_hash '$' a p ha
  obtain ⟨tb, rfl⟩ := valueLine?_hash '$' b p hb
  obtain ⟨a1, a2, a3, a4, a5, a6⟩ := only_suffix _ p ha
  obtain ⟨b1, b2, b3, b4, b5, b6⟩ := only_suffix _ p hb
  simp [view, View.isText, isBlank_hash, ha, hb, a1, a2, a3, a4, a5, a6, b1, b2, b3, b4, b5, b6]

/-- **C10 (same directive, same arguments).** For every line that is not a block start and every indentation
    level: every recogniser the parser consults answers on the formatted line (indentation stripped, as the
    parser does) exactly as on the original one, and when none fires the text is identical. -/
theorem C10_view_preserved (l : Bytes) (i : Nat) (l' : Bytes) (k : Nat)
    (hl : trimLeftSpTab l = l) (hbs : blockStart? l = none) (h : processLine l i = some (l', k)) :
    view (trimLeftSpTab l') = view l ∧ ((view l).isText = true → trimLeftSpTab l' = l) := by
  have hhead : ∀ c, l.head? = some c → isSpTab c = false := by rw [← hl]; exact trimLeftSpTab_head l
  have same : ∀ j, trimLeftSpTab (indentBy j l) = l := fun j => trimLeftSpTab_indentBy j l hhead
  by_cases he : l.isEmpty = true
  · have hp : processLine l i = some (l, i) := by unfold processLine; simp only [hl, he, if_true]
    rw [hp] at h
    simp only [Option.some.injEq, Prod.mk.injEq] at h
    obtain ⟨rfl, rfl⟩ := h
    rw [hl]; exact ⟨rfl, fun _ => rfl⟩
  have he' : l.isEmpty = false := by simpa using he
  by_cases hbe : blockEnd? l = true
  · have hp : processLine l i = (if i == 0 then none else some (indentBy (i - 1) l, i - 1)) := by
      unfold processLine; simp only [hl, he', hbs, hbe, Bool.false_eq_true, if_false, if_true]
    rw [hp] at h
    split at h
    · simp at h
    · simp only [Option.some.injEq, Prod.mk.injEq] at h
      obtain ⟨rfl, rfl⟩ := h
      rw [same]; exact ⟨rfl, fun _ => rfl⟩
  have hbe' : blockEnd? l = false := by simpa using hbe
  cases hfl : flags? l with
  | some v =>
    obtain ⟨ht, hne⟩ := valueLine?_shape '+' l v hfl
    have hp : processLine l i = some (emitValue '+' v, i) := by
      unfold processLine; simp only [hl, he', hbs, hbe', hfl, Bool.false_eq_true, if_false]; rfl
    rw [hp] at h
    simp only [Option.some.injEq, Prod.mk.injEq] at h
    obtain ⟨rfl, rfl⟩ := h
    have e : trimLeftSpTab (emitValue '+' v) = emitValue '+' v := trimLeftSpTab_of_head _ (by intro c hc; simp [emitValue_eq] at hc; subst hc; rfl)
    rw [e]
    obtain ⟨q1, q2⟩ := view_eq_of_flags (emitValue '+' v) l v (valueLine?_emit '+' v ht hne) hfl
    exact ⟨q1, fun hx => by rw [← q1, q2] at hx; exact absurd hx (by simp)⟩
  | none =>
  cases hpf : prefix? l with
  | some v =>
    obtain ⟨ht, hne⟩ := valueLine?_shape '^' l v hpf
    have hp : processLine l i = some (emitValue '^' v, i) := by
      unfold processLine; simp only [hl, he', hbs, hbe', hfl, hpf, Bool.false_eq_true, if_false]; rfl
    rw [hp] at h
    simp only [Option.some.injEq, Prod.mk.injEq] at h
    obtain ⟨rfl, rfl⟩ := h
    have e : trimLeftSpTab (emitValue '^' v) = emitValue '^' v := trimLeftSpTab_of_head _ (by intro c hc; simp [emitValue_eq] at hc; subst hc; rfl)
    rw [e]
    obtain ⟨q1, q2⟩ := view_eq_of_prefix (emitValue '^' v) l v (valueLine?_emit '^' v ht hne) hpf
    exact ⟨q1, fun hx => by rw [← q1, q2] at hx; exact absurd hx (by simp)⟩
  | none =>
  cases hsf : suffix? l with
  | some v =>
    obtain ⟨ht, hne⟩ := valueLine?_shape '$' l v hsf
    have hp : processLine l i = some (emitValue '$' v, i) := by
      unfold processLine; simp only [hl, he', hbs, hbe', hfl, hpf, hsf, Bool.false_eq_true, if_false]; rfl
    rw [hp] at h
    simp only [Option.some.injEq, Prod.mk.injEq] at h
    obtain ⟨rfl, rfl⟩ := h
    have e : trimLeftSpTab (emitValue '$' v) = emitValue '$' v := trimLeftSpTab_of_head _ (by intro c hc; simp [emitValue_eq] at hc; subst hc; rfl)
    rw [e]
    obtain ⟨q1, q2⟩ := view_eq_of_suffix (emitValue '$' v) l v (valueLine?_emit '$' v ht hne) hsf
    exact ⟨q1, fun hx => by rw [← q1, q2] at hx; exact absurd hx (by simp)⟩
  | none =>
  cases hdf : definition? l with
  | some p =>
    obtain ⟨n, v⟩ := p
    obtain ⟨a1, a2, a3, a4⟩ := definition?_shape l n v hdf
    have hp : processLine l i = some (indentBy i (emitDefine n v), i) := by
      unfold processLine; simp only [hl, he', hbs, hbe', hfl, hpf, hsf, hdf, Bool.false_eq_true, if_false]; rfl
    rw [hp] at h
    simp only [Option.some.injEq, Prod.mk.injEq] at h
    obtain ⟨rfl, rfl⟩ := h
    have e : trimLeftSpTab (indentBy i (emitDefine n v)) = emitDefine n v :=
      trimLeftSpTab_indentBy i _ (by intro c hc; simp [emitDefine] at hc; subst hc; rfl)
    rw [e]
    obtain ⟨q1, q2⟩ := view_eq_of_definition (emitDefine n v) l (n, v) (definition?_emit n v a1 a2 a3 a4) hdf
    exact ⟨q1, fun hx => by rw [← q1, q2] at hx; exact absurd hx (by simp)⟩
  | none =>
  cases hin : include? l with
  | some p =>
    obtain ⟨n, r⟩ := p
    obtain ⟨a1, a2, a3⟩ := include?_shape l n r hin
    have hp : processLine l i = some (indentBy i (emitInclude n r), i) := by
      unfold processLine; simp only [hl, he', hbs, hbe', hfl, hpf, hsf, hdf, hin, Bool.false_eq_true, if_false]; rfl
    rw [hp] at h
    simp only [Option.some.injEq, Prod.mk.injEq] at h
    obtain ⟨rfl, rfl⟩ := h
    have e : trimLeftSpTab (indentBy i (emitInclude n r)) = emitInclude n r :=
      trimLeftSpTab_indentBy i _ (by intro c hc; simp [emitInclude] at hc; subst hc; rfl)
    rw [e]
    obtain ⟨q1, q2⟩ := view_eq_of_include (emitInclude n r) l (n, r) (include?_emit n r a1 a2 a3) hin
    exact ⟨q1, fun hx => by rw [← q1, q2] at hx; exact absurd hx (by simp)⟩
  | none =>
  cases hix : includeExcept? l with
  | some p =>
    obtain ⟨n, x, r⟩ := p
    obtain ⟨a1, a2, a3, a4, a5⟩ := includeExcept?_shape l n x r hix
    have hp : processLine l i = some (indentBy i (emitIE n x r), i) := by
      unfold processLine; simp only [hl, he', hbs, hbe', hfl, hpf, hsf, hdf, hin, hix, Bool.false_eq_true, if_false]; rfl
    rw [hp] at h
    simp only [Option.some.injEq, Prod.mk.injEq] at h
    obtain ⟨rfl, rfl⟩ := h
    have e : trimLeftSpTab (indentBy i (emitIE n x r)) = emitIE n x r :=
      trimLeftSpTab_indentBy i _ (by intro c hc; simp [emitIE] at hc; subst hc; rfl)
    rw [e]
    obtain ⟨q1, q2⟩ := view_eq_of_includeExcept (emitIE n x r) l (n, x, r) (includeExcept?_emit n x r a1 a2 a3 a4 a5) hix
    exact ⟨q1, fun hx => by rw [← q1, q2] at hx; exact absurd hx (by simp)⟩
  | none =>
    have hp : processLine l i = some (indentBy i l, i) := by
      unfold processLine; simp only [hl, he', hbs, hbe', hfl, hpf, hsf, hdf, hin, hix, Bool.false_eq_true, if_false]
    rw [hp] at h
    simp only [Option.some.injEq, Prod.mk.injEq] at h
    obtain ⟨rfl, rfl⟩ := h
    rw [same]; exact ⟨rfl, fun _ => rfl⟩

/-- **C10 (the compiler's step is unchanged).** Replacing a line by its formatted version changes nothing for the
    parser: same state afterwards, same error if any — for every parser state, include tree and continuation. -/
theorem C10_parser_step_same (fs : Fs) (o1 o2 : Ord) (fuel : Nat) (st : PState) (l : Bytes) (i : Nat) (l' : Bytes) (k : Nat)
    (rest : List Bytes) (hl : trimLeftSpTab l = l) (hbs : blockStart? l = none) (h : processLine l i = some (l', k)) :
    parseLines fs o1 o2 fuel st (l' :: rest) = parseLines fs o1 o2 fuel st (l :: rest) := by
  obtain ⟨q1, q2⟩ := C10_view_preserved l i l' k hl hbs h
  apply parseLines_congr
  · rw [hl]; exact q1
  · rw [hl, q1]; exact q2

/-! ### block start lines -/

theorem takeWhile_append_noP {α} (p : α → Bool) (a w : List α) (hw : ∀ c ∈ w, p c = false) :
    (a ++ w).takeWhile p = a.takeWhile p := by
  induction a with
  | nil =>
    cases w with
    | nil => rfl
    | cons c cs => simp [List.takeWhile, hw c (by simp)]
  | cons x xs ih =>
    by_cases hx : p x = true
    · simp [List.takeWhile, hx, ih]
    · simp [List.takeWhile, hx]

theorem trimRightWs_split (x : Bytes) : ∃ w, x = trimRightWs x ++ w ∧ ∀ c ∈ w, isWs c = true := by
  refine ⟨(x.reverse.takeWhile isWs).reverse, ?_, ?_⟩
  · unfold trimRightWs
    rw [← List.reverse_append, List.takeWhile_append_dropWhile, List.reverse_reverse]
  · intro c hc
    rw [List.mem_reverse] at hc
    exact mem_takeWhile_imp' _ _ c hc

theorem lower_not_ws (c : Char) (h : isWs c = true) : isLower c = false := by
  simp only [isWs, Bool.or_eq_true, beq_iff_eq] at h
  rcases h with (((rfl | rfl) | rfl) | rfl) | rfl <;> decide

theorem takeWhile_lower_trimRight (x : Bytes) : (trimRightWs x).takeWhile isLower = x.takeWhile isLower := by
  obtain ⟨w, hw, hall⟩ := trimRightWs_split x
  conv => rhs; rw [hw]
  exact (takeWhile_append_noP isLower _ w (fun c hc => lower_not_ws c (hall c hc))).symm

/-- what the assembler reads in a block start line: processor name and first lower-case word of the argument -/
theorem processorStart?_of_blockStart (l kw arg : Bytes) (h : blockStart? l = some (kw, arg)) :
    processorStart? l = some (kw, arg.takeWhile isLower) := by
  unfold blockStart? at h
  split at h
  · simp at h
  · rename_i r hr
    simp only at h
    have key : ∀ k : Bytes, (∀ c ∈ k, isLower c = true) → k ≠ [] →
        (match stripPrefix? k (dropWs r) with
          | none => none
          | some rest => match rest with
            | [] => some (k, [])
            | c :: _ => if isWs c then some (k, trimWs rest) else none) = some (kw, arg) →
        processorStart? l = some (kw, arg.takeWhile isLower) := by
      intro k hk hkne hm
      split at hm
      · simp at hm
      · rename_i rest hrest
        have hd : dropWs r = k ++ rest := (stripPrefix?_some_iff _ _ _).mp hrest
        unfold processorStart?
        rw [hr]
        simp only [hd]
        split at hm
        · -- nothing after the keyword
          simp only [Option.some.injEq, Prod.mk.injEq] at hm
          obtain ⟨rfl, rfl⟩ := hm
          obtain ⟨t1, t2⟩ := takeWhile_all isLower k hk
          simp only [List.append_nil, t1, t2]
          have : k.isEmpty = false := by cases k with | nil => exact absurd rfl hkne | cons _ _ => rfl
          simp [this]
        · rename_i c cs
          split at hm
          · rename_i hws
            simp only [Option.some.injEq, Prod.mk.injEq] at hm
            obtain ⟨rfl, rfl⟩ := hm
            obtain ⟨t1, t2⟩ := takeWhile_append_stop isLower k c cs hk (lower_not_ws c hws)
            simp only [t1, t2]
            have : k.isEmpty = false := by cases k with | nil => exact absurd rfl hkne | cons _ _ => rfl
            simp only [this, Bool.false_eq_true, if_false, hws, if_true]
            unfold trimWs
            rw [takeWhile_lower_trimRight]
          · simp at hm
    split at h
    · rename_i x hx
      simp only [Option.some.injEq] at h
      subst h
      exact key b!"assemble" (by decide) (by decide) hx
    · exact key b!"cmdline" (by decide) (by decide) h

theorem notDirective_of_blockStart (l kw arg : Bytes) (h : blockStart? l = some (kw, arg)) :
    (view l).isText = true := by
  -- a block start line begins with `##!>` and its keyword is neither define nor include…: no parser recogniser fires
  have hps := processorStart?_of_blockStart l kw arg h
  obtain ⟨hkw, _⟩ := blockStart?_shape l kw arg h
  unfold blockStart? at h
  split at h
  · simp at h
  · rename_i r hr
    have hl : l = b!"##!>" ++ r := (stripPrefix?_some_iff _ _ _).mp hr
    have hkey : ∃ rest, dropWs r = kw ++ rest := by
      simp only at h
      split at h
      · rename_i x hx
        simp only [Option.some.injEq] at h; subst h
        split at hx
        · simp at hx
        · rename_i rest hrest
          have := (stripPrefix?_some_iff _ _ _).mp hrest
          split at hx
          · simp only [Option.some.injEq, Prod.mk.injEq] at hx; obtain ⟨rfl, _⟩ := hx; exact ⟨_, this⟩
          · split at hx
            · simp only [Option.some.injEq, Prod.mk.injEq] at hx; obtain ⟨rfl, _⟩ := hx; exact ⟨_, this⟩
            · simp at hx
      · split at h
        · simp at h
        · rename_i rest hrest
          have := (stripPrefix?_some_iff _ _ _).mp hrest
          split at h
          · simp only [Option.some.injEq, Prod.mk.injEq] at h; obtain ⟨rfl, _⟩ := h; exact ⟨_, this⟩
          · split at h
            · simp only [Option.some.injEq, Prod.mk.injEq] at h; obtain ⟨rfl, _⟩ := h; exact ⟨_, this⟩
            · simp at h
    obtain ⟨rest, hrest⟩ := hkey
    have hdef : definition? l = none := by
      unfold definition?; rw [hr]; simp only [hrest]
      rcases hkw with rfl | rfl <;> simp [stripPrefix?]
    have hinc : include? l = none := by
      unfold include?; rw [hr]; simp only [hrest]
      rcases hkw with rfl | rfl <;> simp [stripPrefix?]
    have hix : includeExcept? l = none := by
      unfold includeExcept?; rw [hr]; simp only [hrest]
      rcases hkw with rfl | rfl <;> simp [stripPrefix?]
    have hl' : l = '#' :: '#' :: '!' :: '>' :: r := hl
    obtain ⟨f1, f2, f3⟩ := valueLines_none_start r
    rw [← hl'] at f1 f2 f3
    have hcm : comment? l = false := by rw [hl']; simp [comment?, marker, stripPrefix?, dropWs, List.dropWhile, isWs]
    have hbl : isBlank l = false := by rw [hl']; exact isBlank_hash _
    simp [view, View.isText, hdef, hinc, hix, f1, f2, f3, hcm, hbl]

/-- **C10 (block start lines).** A formatted block start line is still handed to the assembler as text, and the
    assembler reads the same processor name and the same argument word in it. -/
theorem C10_block_start_same (l : Bytes) (i : Nat) (l' : Bytes) (k : Nat) (kw arg : Bytes)
    (hl : trimLeftSpTab l = l) (hbs : blockStart? l = some (kw, arg)) (h : processLine l i = some (l', k)) :
    (view l).isText = true ∧ (view (trimLeftSpTab l')).isText = true ∧
    processorStart? (trimLeftSpTab l') = processorStart? l ∧ k = i + 1 := by
  obtain ⟨hkw, harg⟩ := blockStart?_shape l kw arg hbs
  have he' : l.isEmpty = false := by
    cases l with
    | nil => simp [blockStart?, stripPrefix?, startMarker] at hbs
    | cons _ _ => rfl
  have hp : processLine l i = some (indentBy i (emitStart kw arg), i + 1) := by
    unfold processLine; simp only [hl, he', hbs, Bool.false_eq_true, if_false]; rfl
  rw [hp] at h
  simp only [Option.some.injEq, Prod.mk.injEq] at h
  obtain ⟨rfl, rfl⟩ := h
  have e : trimLeftSpTab (indentBy i (emitStart kw arg)) = emitStart kw arg :=
    trimLeftSpTab_indentBy i _ (by intro c hc; simp [emitStart] at hc; subst hc; rfl)
  rw [e]
  have hbs' := blockStart?_emit kw arg hkw harg
  exact ⟨notDirective_of_blockStart l kw arg hbs, notDirective_of_blockStart _ kw arg hbs',
    by rw [processorStart?_of_blockStart _ kw arg hbs', processorStart?_of_blockStart l kw arg hbs], rfl⟩

/-! ### line by line: nothing dropped, duplicated or reordered -/

/-- two lists related element by element, in order (same length) -/
inductive Pointwise {α β} (R : α → β → Prop) : List α → List β → Prop where
  | nil : Pointwise R [] []
  | cons {a b as bs} : R a b → Pointwise R as bs → Pointwise R (a :: as) (b :: bs)

theorem Pointwise.length_eq {α β} {R : α → β → Prop} {as : List α} {bs : List β} (h : Pointwise R as bs) : as.length = bs.length := by
  induction h with
  | nil => rfl
  | cons _ _ ih => simp [ih]

/-- **C10 (pointwise).** The formatted lines are the original lines, one for one and in order, each the result of
    the line function at some indentation level. -/
theorem C10_lines_pointwise (ls : List Bytes) (i : Nat) (ls' : List Bytes) (h : formatLines ls i = some ls') :
    Pointwise (fun l l' => ∃ j k, processLine l j = some (l', k)) ls ls' := by
  induction ls generalizing i ls' with
  | nil =>
    simp only [formatLines, Option.some.injEq] at h
    subst h; exact Pointwise.nil
  | cons l ls ih =>
    obtain ⟨l', k, rest, hp, hr, rfl⟩ := formatLines_cons_inv l ls i ls' h
    exact Pointwise.cons ⟨i, k, hp⟩ (ih k rest hr)

/-- **C10 (file).** A successful format writes: the header, an empty line, and the formatted lines of the file
    (without the header when it was there already) up to trailing empty lines — `body ++ k empty lines` is pointwise
    the parsed lines of the input. -/
theorem C10_file_lines (b out : Bytes) (h : formatFile b = .ok out) :
    ∃ (ls body : List Bytes) (k : Nat),
      formatLines (parsedLines b) 0 = some ls ∧
      Pointwise (fun l l' => ∃ j k, processLine l j = some (l', k)) (parsedLines b) ls ∧
      (ls = body ++ List.replicate k [] ∨ ls = header1 :: header2 :: [] :: (body ++ List.replicate k []) ∨ (ls = [header1, header2] ∧ body = [])) ∧
      out = unlines (header1 :: header2 :: [] :: body) := by
  unfold formatFile at h
  split at h
  · simp at h
  split at h
  · simp at h
  rename_i ls hfl
  simp only [Except.ok.injEq] at h
  have hpw := C10_lines_pointwise _ _ _ hfl
  by_cases hh : hasHeader ls = true
  · simp only [hh, if_true] at h
    obtain ⟨k, hk⟩ := trimTrailingEmpty_prefix (ls.drop 3)
    rcases hasHeader_drop ls hh with ⟨e1, e2⟩ | e
    · refine ⟨ls, [], 0, hfl, hpw, Or.inr (Or.inr ⟨e1, rfl⟩), ?_⟩
      rw [← h, e2]; rfl
    · refine ⟨ls, trimTrailingEmpty (ls.drop 3), k, hfl, hpw, Or.inr (Or.inl ?_), h.symm⟩
      rw [← hk]; exact e
  · simp only [hh, Bool.false_eq_true, if_false] at h
    obtain ⟨k, hk⟩ := trimTrailingEmpty_prefix ls
    exact ⟨ls, trimTrailingEmpty ls, k, hfl, hpw, Or.inl hk, h.symm⟩

/-! ### white space only -/

theorem hasSuffix_append_self (x s : Bytes) : hasSuffix s (x ++ s) = true := by
  unfold hasSuffix
  rw [List.reverse_append]
  exact List.isPrefixOf_iff_prefix.mpr (List.prefix_append _ _)

/-- **C10 (white space only).** For every line and indentation level, the formatted line and the original line
    consist of the same non-white-space characters in the same order — unless the line ends, white space disregarded,
    in `--` (the dangling separator of known finding D23; a sufficient, not a necessary exclusion). -/
theorem C10_white_space_only (l : Bytes) (i : Nat) (l' : Bytes) (k : Nat)
    (hl : trimLeftSpTab l = l) (hdd : hasSuffix b!"--" (noWs l) = false) (h : processLine l i = some (l', k)) :
    noWs l' = noWs l := by
  by_cases he : l.isEmpty = true
  · have hp : processLine l i = some (l, i) := by unfold processLine; simp only [hl, he, if_true]
    rw [hp] at h
    simp only [Option.some.injEq, Prod.mk.injEq] at h
    obtain ⟨rfl, rfl⟩ := h
    rfl
  have he' : l.isEmpty = false := by simpa using he
  cases hbs : blockStart? l with
  | some p =>
    obtain ⟨kw, arg⟩ := p
    obtain ⟨hkw, harg⟩ := blockStart?_shape l kw arg hbs
    have hp : processLine l i = some (indentBy i (emitStart kw arg), i + 1) := by
      unfold processLine; simp only [hl, he', hbs, Bool.false_eq_true, if_false]; rfl
    rw [hp] at h
    simp only [Option.some.injEq, Prod.mk.injEq] at h
    obtain ⟨rfl, rfl⟩ := h
    rw [noWs_indentBy, noWs_emitStart kw arg hkw, blockStart?_noWs l kw arg hbs]
  | none =>
  by_cases hbe : blockEnd? l = true
  · have hp : processLine l i = (if i == 0 then none else some (indentBy (i - 1) l, i - 1)) := by
      unfold processLine; simp only [hl, he', hbs, hbe, Bool.false_eq_true, if_false, if_true]
    rw [hp] at h
    split at h
    · simp at h
    · simp only [Option.some.injEq, Prod.mk.injEq] at h
      obtain ⟨rfl, rfl⟩ := h
      exact noWs_indentBy _ _
  have hbe' : blockEnd? l = false := by simpa using hbe
  cases hfl : flags? l with
  | some v =>
    have hp : processLine l i = some (emitValue '+' v, i) := by
      unfold processLine; simp only [hl, he', hbs, hbe', hfl, Bool.false_eq_true, if_false]; rfl
    rw [hp] at h
    simp only [Option.some.injEq, Prod.mk.injEq] at h
    obtain ⟨rfl, rfl⟩ := h
    rw [noWs_emitValue '+' rfl, valueLine?_noWs '+' rfl l v hfl]
  | none =>
  cases hpf : prefix? l with
  | some v =>
    have hp : processLine l i = some (emitValue '^' v, i) := by
      unfold processLine; simp only [hl, he', hbs, hbe', hfl, hpf, Bool.false_eq_true, if_false]; rfl
    rw [hp] at h
    simp only [Option.some.injEq, Prod.mk.injEq] at h
    obtain ⟨rfl, rfl⟩ := h
    rw [noWs_emitValue '^' rfl, valueLine?_noWs '^' rfl l v hpf]
  | none =>
  cases hsf : suffix? l with
  | some v =>
    have hp : processLine l i = some (emitValue '$' v, i) := by
      unfold processLine; simp only [hl, he', hbs, hbe', hfl, hpf, hsf, Bool.false_eq_true, if_false]; rfl
    rw [hp] at h
    simp only [Option.some.injEq, Prod.mk.injEq] at h
    obtain ⟨rfl, rfl⟩ := h
    rw [noWs_emitValue '$' rfl, valueLine?_noWs '$' rfl l v hsf]
  | none =>
  cases hdf : definition? l with
  | some p =>
    obtain ⟨n, v⟩ := p
    obtain ⟨a1, a2, a3, a4⟩ := definition?_shape l n v hdf
    have hp : processLine l i = some (indentBy i (emitDefine n v), i) := by
      unfold processLine; simp only [hl, he', hbs, hbe', hfl, hpf, hsf, hdf, Bool.false_eq_true, if_false]; rfl
    rw [hp] at h
    simp only [Option.some.injEq, Prod.mk.injEq] at h
    obtain ⟨rfl, rfl⟩ := h
    rw [noWs_indentBy, noWs_emitDefine n v a2 a4, definition?_noWs l n v hdf]
  | none =>
  cases hin : include? l with
  | some p =>
    obtain ⟨n, r⟩ := p
    obtain ⟨a1, a2, a3⟩ := include?_shape l n r hin
    have hp : processLine l i = some (indentBy i (emitInclude n r), i) := by
      unfold processLine; simp only [hl, he', hbs, hbe', hfl, hpf, hsf, hdf, hin, Bool.false_eq_true, if_false]; rfl
    rw [hp] at h
    simp only [Option.some.injEq, Prod.mk.injEq] at h
    obtain ⟨rfl, rfl⟩ := h
    obtain ⟨dd, e, hcase⟩ := include?_noWs l n r hin
    rw [noWs_indentBy, noWs_emitInclude n r a2, e]
    rcases hcase with ⟨rfl, rfl⟩ | rfl
    · simp [noWs]
    · by_cases hr : r.isEmpty = true
      · have : r = [] := by simpa using hr
        subst this
        rw [e] at hdd
        have : noWs ([] : Bytes) = [] := rfl
        rw [this, List.append_nil, hasSuffix_append_self] at hdd
        exact absurd hdd (by simp)
      · simp only [hr, Bool.false_eq_true, if_false, List.append_assoc]
  | none =>
  cases hix : includeExcept? l with
  | some p =>
    obtain ⟨n, x, r⟩ := p
    obtain ⟨a1, a2, a3, a4, a5⟩ := includeExcept?_shape l n x r hix
    have hp : processLine l i = some (indentBy i (emitIE n x r), i) := by
      unfold processLine; simp only [hl, he', hbs, hbe', hfl, hpf, hsf, hdf, hin, hix, Bool.false_eq_true, if_false]; rfl
    rw [hp] at h
    simp only [Option.some.injEq, Prod.mk.injEq] at h
    obtain ⟨rfl, rfl⟩ := h
    obtain ⟨dd, e, hcase⟩ := includeExcept?_noWs l n x r hix
    rw [noWs_indentBy, noWs_emitIE n x r a2, e]
    rcases hcase with ⟨rfl, rfl⟩ | rfl
    · simp [noWs]
    · by_cases hr : r.isEmpty = true
      · have : r = [] := by simpa using hr
        subst this
        rw [e] at hdd
        have : noWs ([] : Bytes) = [] := rfl
        rw [this, List.append_nil, hasSuffix_append_self] at hdd
        exact absurd hdd (by simp)
      · simp only [hr, Bool.false_eq_true, if_false, List.append_assoc]
  | none =>
    have hp : processLine l i = some (indentBy i l, i) := by
      unfold processLine; simp only [hl, he', hbs, hbe', hfl, hpf, hsf, hdf, hin, hix, Bool.false_eq_true, if_false]
    rw [hp] at h
    simp only [Option.some.injEq, Prod.mk.injEq] at h
    obtain ⟨rfl, rfl⟩ := h
    exact noWs_indentBy _ _

/-! ### known finding D23 and non-vacuity -/

/-- D23 as a fact of the model: a dangling `--` (nothing after it) on an include line is not written back.
    White space is not the only thing that changes on such a line; the compiled regex is unaffected
    (`C10_parser_step_same` covers the line: the parser reads the same directive with the same, empty, replacement list). -/
theorem C10_dangling_dashes_dropped_D23 :
    processLine "##!> include foo --".toList 0 = some ("##!> include foo".toList, 0) := by decide +kernel

/-- non-vacuity: a line with unusual spacing is a fixed directive for the parser before and after -/
example : processLine "##!>   include   foo--a   b  ".toList 1 = some ("  ##!> include foo -- a   b".toList, 1)
    ∧ include? "##!>   include   foo--a   b  ".toList = some ("foo".toList, "a   b".toList) := by decide +kernel

end Crs.Props
