import Crs.Format
import Crs.Parser
namespace Crs.Props
theorem C10_placeholder : True := trivial
end Crs.Props
