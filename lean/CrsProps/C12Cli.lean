/-
  C12 / C08 / C16 on the tree-level model of `regex compare` (`Crs.Cli.compareRule`, `compareAll`, `compareCmd`):
  what a compare run reports is, rule by rule, the verdict of the single invocation; a zero status means "up to date"
  in single-rule mode and in GitHub mode; compare has no way to write (its result carries no tree).
-/
import Crs.Cli
import CrsProps.C08
import CrsProps.C12
import CrsProps.C02
namespace Crs.Props
open Crs Crs.Cli Crs.Update

/-- **single rule, either output mode**: status 0 exactly when the stored operand is the generated regex -/
theorem C12_compare_single_status (E : Asm.Engine) (cfg : Asm.Config) (o1 o2 : Parser.Ord) (t : Tree) (arg : Bytes) :
    (compareCmd E cfg o1 o2 t arg).ok = true ↔
      ∃ ra b, Update.parseRuleId arg = .ok ra ∧ lookup (assemblyPath ra.fileName) t = some b ∧
        compareRule E cfg o1 o2 t b ra.id ra.chainOffset = .ok true := by
  unfold compareCmd
  cases hp : Update.parseRuleId arg with
  | error e => simp
  | ok ra =>
    simp only
    cases hl : lookup (assemblyPath ra.fileName) t with
    | none => simp [hl]
    | some b =>
      simp only
      cases hc : compareRule E cfg o1 o2 t b ra.id ra.chainOffset with
      | error e => simp [hl, hc]
      | ok v =>
        cases v with
        | true => simp [hl, hc]
        | false => simp [hl, hc]

/-- **GitHub mode, `--all`**: status 0 only if no visited rule is out of date -/
theorem C12_compareAll_github_status (E : Asm.Engine) (cfg : Asm.Config) (o1 o2 : Parser.Ord) (t : Tree) (files : List (Bytes × Bytes)) :
    (compareAll E cfg o1 o2 true t files).ok = true → (compareAll E cfg o1 o2 true t files).changed = [] := by
  induction files with
  | nil => intro _; rfl
  | cons pb rest ih =>
    obtain ⟨p, b⟩ := pb
    simp only [compareAll]
    split
    · split
      · exact ih
      · intro h; simp at h
      · rename_i id k _
        split
        · intro h; simp at h
        · intro h; exact ih h
        · intro h; simp at h
    · exact ih

/-- **every reported verdict is the single invocation's** (C08): a rule reported as unchanged / changed by `--all` is a
    rule file of the tree for which `compareRule` — the function the single invocation runs, on the same tree, with no
    state carried from file to file — gives that verdict -/
theorem C08_compareAll_reports (E : Asm.Engine) (cfg : Asm.Config) (o1 o2 : Parser.Ord) (github : Bool) (t : Tree)
    (files : List (Bytes × Bytes)) :
    (∀ id ∈ (compareAll E cfg o1 o2 github t files).unchanged, ∃ p b k, (p, b) ∈ files ∧ isFormatTarget p = true ∧
        ruleOfFileName (baseName p) = some (some (id, k)) ∧ compareRule E cfg o1 o2 t b id k = .ok true) ∧
    (∀ id ∈ (compareAll E cfg o1 o2 github t files).changed, ∃ p b k, (p, b) ∈ files ∧ isFormatTarget p = true ∧
        ruleOfFileName (baseName p) = some (some (id, k)) ∧ compareRule E cfg o1 o2 t b id k = .ok false) := by
  induction files with
  | nil => simp [compareAll]
  | cons pb rest ih =>
    obtain ⟨p, b⟩ := pb
    have lift : ∀ (v : Bool) (id : Bytes), (∃ p' b' k, (p', b') ∈ rest ∧ isFormatTarget p' = true ∧
        ruleOfFileName (baseName p') = some (some (id, k)) ∧ compareRule E cfg o1 o2 t b' id k = .ok v) →
        ∃ p' b' k, (p', b') ∈ (p, b) :: rest ∧ isFormatTarget p' = true ∧
        ruleOfFileName (baseName p') = some (some (id, k)) ∧ compareRule E cfg o1 o2 t b' id k = .ok v := by
      intro v id ⟨p', b', k, hm, h1, h2, h3⟩
      exact ⟨p', b', k, List.mem_cons_of_mem _ hm, h1, h2, h3⟩
    simp only [compareAll]
    by_cases hft : isFormatTarget p = true
    · simp only [hft, if_true]
      cases hr : ruleOfFileName (baseName p) with
      | none => exact ⟨fun id h => lift true id (ih.1 id h), fun id h => lift false id (ih.2 id h)⟩
      | some o =>
        cases o with
        | none => simp
        | some idk =>
          obtain ⟨id0, k0⟩ := idk
          simp only
          cases hc : compareRule E cfg o1 o2 t b id0 k0 with
          | error e => simp
          | ok v =>
            cases v with
            | true =>
              simp only
              refine ⟨?_, fun id h => lift false id (ih.2 id h)⟩
              intro id h
              rcases List.mem_cons.mp h with rfl | h
              · exact ⟨p, b, k0, by simp, hft, hr, hc⟩
              · exact lift true id (ih.1 id h)
            | false =>
              simp only
              refine ⟨fun id h => lift true id (ih.1 id h), ?_⟩
              intro id h
              rcases List.mem_cons.mp h with rfl | h
              · exact ⟨p, b, k0, by simp, hft, hr, hc⟩
              · exact lift false id (ih.2 id h)
    · simp only [hft, Bool.false_eq_true, if_false]
      exact ⟨fun id h => lift true id (ih.1 id h), fun id h => lift false id (ih.2 id h)⟩

/-- **failures are loud** (C16): when a rule file cannot be compared — assembly fails, rules file missing or ambiguous,
    rule or operand not found, chain offset above 255 — the run ends with a non-zero status -/
theorem C16_compareAll_fatal_is_loud (E : Asm.Engine) (cfg : Asm.Config) (o1 o2 : Parser.Ord) (github : Bool) (t : Tree)
    (pre post : List (Bytes × Bytes)) (p b : Bytes) (hft : isFormatTarget p = true)
    (hbad : ruleOfFileName (baseName p) = some none ∨
      ∃ id k e, ruleOfFileName (baseName p) = some (some (id, k)) ∧ compareRule E cfg o1 o2 t b id k = .error e) :
    (compareAll E cfg o1 o2 github t (pre ++ (p, b) :: post)).ok = false := by
  induction pre with
  | nil =>
    simp only [List.nil_append, compareAll, hft, if_true]
    rcases hbad with h | ⟨id, k, e, h1, h2⟩
    · simp [h]
    · simp [h1, h2]
  | cons qb pre ih =>
    obtain ⟨q, c⟩ := qb
    simp only [List.cons_append, compareAll]
    split
    · split
      · exact ih
      · rfl
      · split
        · rfl
        · exact ih
        · simp [ih]
    · exact ih

/-! ### update, then compare — on the tree -/

theorem setFile_lookup_same (p c : Bytes) (t : Tree) (b : Bytes) (h : lookup p t = some b) :
    lookup p (setFile p c t) = some c := by
  induction t with
  | nil => simp [lookup] at h
  | cons x rest ih =>
    obtain ⟨q, d⟩ := x
    simp only [lookup] at h
    simp only [setFile]
    by_cases hq : (q == p) = true
    · simp [hq, lookup]
    · simp only [hq, Bool.false_eq_true, if_false] at h ⊢
      simp only [lookup, hq, Bool.false_eq_true, if_false]
      exact ih h

/-- which file holds the rules of an id depends on the paths of the tree only -/
theorem rulesFileOf_paths (t t' : Tree) (id : Bytes) (h : t'.map Prod.fst = t.map Prod.fst) :
    rulesFileOf t' id = rulesFileOf t id := by
  unfold rulesFileOf
  simp only
  generalize hP : (fun pb : Bytes × Bytes => hasPrefix b!"rules/" pb.1 && !(pb.1.drop 6).contains '/' &&
      Update.contains (['-'] ++ id.take 3 ++ ['-']) (pb.1.drop 6)) = P
  have key : ∀ (a b : Tree), b.map Prod.fst = a.map Prod.fst → (b.filter P).map Prod.fst = (a.filter P).map Prod.fst := by
    intro a
    induction a with
    | nil => intro b hb; cases b with | nil => rfl | cons _ _ => simp at hb
    | cons x a ih =>
      intro b hb
      cases b with
      | nil => simp at hb
      | cons y b =>
        simp only [List.map_cons, List.cons.injEq] at hb
        have hxy : P y = P x := by
          rw [← hP]; simp only [hb.1]
        simp only [List.filter_cons, hxy]
        split
        · simp [hb.1, ih b hb.2]
        · exact ih b hb.2
  have hk := key t t' h
  cases hf : t.filter P with
  | nil =>
    have : t'.filter P = [] := by
      cases hf' : t'.filter P with
      | nil => rfl
      | cons _ _ => rw [hf, hf'] at hk; simp at hk
    simp [this]
  | cons x xs =>
    cases hf' : t'.filter P with
    | nil => rw [hf, hf'] at hk; simp at hk
    | cons y ys =>
      rw [hf, hf'] at hk
      simp only [List.map_cons, List.cons.injEq] at hk
      cases xs with
      | nil =>
        cases ys with
        | nil => simp [hk.1]
        | cons _ _ => simp at hk
      | cons _ _ =>
        cases ys with
        | nil => simp at hk
        | cons _ _ => simp

/-- what `generate` prints is one line (C02: printable ASCII) -/
theorem generate_one_line (E : Asm.Engine) (fs : Parser.Fs) (cfg : Asm.Config) (o1 o2 : Parser.Ord) (input re : Bytes)
    (h : Asm.generate E fs cfg o1 o2 input = .ok re) : '\n' ∉ re := by
  have hp : AllPrintable re := by
    unfold Asm.generate at h
    split at h
    · simp at h
    · split at h
      · simp at h
      · split at h
        · simp at h
        · split at h
          · simp at h
          · rename_i lines _
            unfold Asm.complete at h
            split at h
            · simp at h
            · rename_i r hr
              have hpr : AllPrintable r := by
                split at hr
                · simp at hr
                · exact (C02_finish E _ _ r hr).1
              split at h
              · simp only [Except.ok.injEq] at h; subst h; exact hpr
              · simp at h
  intro hm
  have := hp '\n' hm
  revert this
  decide

/-- **C12 on the tree: update, then compare.** After `regex update` of a rule has succeeded, `regex compare` of the
    same rule on the resulting tree finds it up to date — for every tree, include tree, configuration and engine
    (hypothesis as in `C12_roundtrip`: the rewritten line is classified as before; that the generated regex is one line is C02's theorem). -/
theorem C12_update_then_compare_tree (E : Asm.Engine) (cfg : Asm.Config) (o1 o2 : Parser.Ord) (g : Globals) (t t' : Tree)
    (input id : Bytes) (k : Nat) (h : (updateRule E cfg o1 o2 g t input id k).2 = .ok t')
    (hk : ∀ re rp rc, Asm.generate E (fsOf t) cfg o1 o2 input = .ok re → rulesFileOf t id = some rp → lookup rp t = some rc →
      ∀ (i : Nat) (pre old post : Bytes), (splitNl rc)[i]? = some (pre ++ old ++ post) → KeepsClass (pre ++ old ++ post) (pre ++ re ++ post)) :
    compareRule E cfg o1 o2 t' input id k = .ok true := by
  obtain ⟨hfs, hpaths, _⟩ := C08_update_inputs_untouched E cfg o1 o2 g t t' input id k h
  unfold updateRule at h
  simp only at h
  have hrun : ∀ g0 fs0, (runFile E cfg o1 o2 g0 fs0 input).2 = Asm.generate E fs0 cfg o1 o2 input := fun _ _ => rfl
  rw [hrun] at h
  cases hg : Asm.generate E (fsOf t) cfg o1 o2 input with
  | error e => rw [hg] at h; simp at h
  | ok re =>
    rw [hg] at h
    simp only at h
    cases hrf : rulesFileOf t id with
    | none => rw [hrf] at h; simp at h
    | some rp =>
      rw [hrf] at h
      simp only at h
      cases hl : lookup rp t with
      | none => rw [hl] at h; simp at h
      | some rc =>
        rw [hl] at h
        simp only at h
        cases hu : updateRegex rc id k re with
        | error e => rw [hu] at h; simp at h
        | ok rc' =>
          rw [hu] at h
          simp only [Except.ok.injEq] at h
          subst h
          have hread := C12_roundtrip rc id k re rc' hu (generate_one_line E _ cfg o1 o2 input re hg) (hk re rp rc hg hrf hl)
          unfold compareRule
          rw [hrun, hfs, hg]
          simp only
          rw [rulesFileOf_paths t _ id hpaths, hrf]
          simp only
          rw [setFile_lookup_same rp rc' t rc hl]
          simp only
          rw [hread]
          simp

/-- non-vacuity: a tree with one up-to-date and one stale rule -/
example : ruleOfFileName (baseName b!"regex-assembly/942100.ra") = some (some (b!"942100", 0)) ∧
    isFormatTarget b!"regex-assembly/942100.ra" = true := by decide

end Crs.Props
