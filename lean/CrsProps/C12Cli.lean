/-
  C12 / C08 / C16 on the tree-level model of `regex compare` (`Crs.Cli.compareRule`, `compareAll`, `compareCmd`):
  what a compare run reports is, rule by rule, the verdict of the single invocation; a zero status means "up to date"
  in single-rule mode and in GitHub mode; compare has no way to write (its result carries no tree).
-/
import Crs.Cli
namespace Crs.Props
open Crs Crs.Cli

/-- **single rule, either output mode**: status 0 exactly when the stored operand is the generated regex -/
theorem C12_compare_single_status (E : Asm.Engine) (cfg : Asm.Config) (o1 o2 : Parser.Ord) (t : Tree) (arg : Bytes) :
    (compareCmd E cfg o1 o2 t arg).ok = true ↔
      ∃ ra b, Update.parseRuleId arg = .ok ra ∧ lookup (assemblyPath ra.fileName) t = some b ∧
        compareRule E cfg o1 o2 t b ra.id ra.chainOffset = .ok true := by
  unfold compareCmd
  cases hp : Update.parseRuleId arg with
  | error e => simp
  | ok ra =>
    simp only
    cases hl : lookup (assemblyPath ra.fileName) t with
    | none => simp [hl]
    | some b =>
      simp only
      cases hc : compareRule E cfg o1 o2 t b ra.id ra.chainOffset with
      | error e => simp [hl, hc]
      | ok v =>
        cases v with
        | true => simp [hl, hc]
        | false => simp [hl, hc]

/-- **GitHub mode, `--all`**: status 0 only if no visited rule is out of date -/
theorem C12_compareAll_github_status (E : Asm.Engine) (cfg : Asm.Config) (o1 o2 : Parser.Ord) (t : Tree) (files : List (Bytes × Bytes)) :
    (compareAll E cfg o1 o2 true t files).ok = true → (compareAll E cfg o1 o2 true t files).changed = [] := by
  induction files with
  | nil => intro _; rfl
  | cons pb rest ih =>
    obtain ⟨p, b⟩ := pb
    simp only [compareAll]
    split
    · split
      · exact ih
      · intro h; simp at h
      · rename_i id k _
        split
        · intro h; simp at h
        · intro h; exact ih h
        · intro h; simp at h
    · exact ih

/-- **every reported verdict is the single invocation's** (C08): a rule reported as unchanged / changed by `--all` is a
    rule file of the tree for which `compareRule` — the function the single invocation runs, on the same tree, with no
    state carried from file to file — gives that verdict -/
theorem C08_compareAll_reports (E : Asm.Engine) (cfg : Asm.Config) (o1 o2 : Parser.Ord) (github : Bool) (t : Tree)
    (files : List (Bytes × Bytes)) :
    (∀ id ∈ (compareAll E cfg o1 o2 github t files).unchanged, ∃ p b k, (p, b) ∈ files ∧ isFormatTarget p = true ∧
        ruleOfFileName (baseName p) = some (some (id, k)) ∧ compareRule E cfg o1 o2 t b id k = .ok true) ∧
    (∀ id ∈ (compareAll E cfg o1 o2 github t files).changed, ∃ p b k, (p, b) ∈ files ∧ isFormatTarget p = true ∧
        ruleOfFileName (baseName p) = some (some (id, k)) ∧ compareRule E cfg o1 o2 t b id k = .ok false) := by
  induction files with
  | nil => simp [compareAll]
  | cons pb rest ih =>
    obtain ⟨p, b⟩ := pb
    have lift : ∀ (v : Bool) (id : Bytes), (∃ p' b' k, (p', b') ∈ rest ∧ isFormatTarget p' = true ∧
        ruleOfFileName (baseName p') = some (some (id, k)) ∧ compareRule E cfg o1 o2 t b' id k = .ok v) →
        ∃ p' b' k, (p', b') ∈ (p, b) :: rest ∧ isFormatTarget p' = true ∧
        ruleOfFileName (baseName p') = some (some (id, k)) ∧ compareRule E cfg o1 o2 t b' id k = .ok v := by
      intro v id ⟨p', b', k, hm, h1, h2, h3⟩
      exact ⟨p', b', k, List.mem_cons_of_mem _ hm, h1, h2, h3⟩
    simp only [compareAll]
    by_cases hft : isFormatTarget p = true
    · simp only [hft, if_true]
      cases hr : ruleOfFileName (baseName p) with
      | none => exact ⟨fun id h => lift true id (ih.1 id h), fun id h => lift false id (ih.2 id h)⟩
      | some o =>
        cases o with
        | none => simp
        | some idk =>
          obtain ⟨id0, k0⟩ := idk
          simp only
          cases hc : compareRule E cfg o1 o2 t b id0 k0 with
          | error e => simp
          | ok v =>
            cases v with
            | true =>
              simp only
              refine ⟨?_, fun id h => lift false id (ih.2 id h)⟩
              intro id h
              rcases List.mem_cons.mp h with rfl | h
              · exact ⟨p, b, k0, by simp, hft, hr, hc⟩
              · exact lift true id (ih.1 id h)
            | false =>
              simp only
              refine ⟨fun id h => lift true id (ih.1 id h), ?_⟩
              intro id h
              rcases List.mem_cons.mp h with rfl | h
              · exact ⟨p, b, k0, by simp, hft, hr, hc⟩
              · exact lift false id (ih.2 id h)
    · simp only [hft, Bool.false_eq_true, if_false]
      exact ⟨fun id h => lift true id (ih.1 id h), fun id h => lift false id (ih.2 id h)⟩

/-- **failures are loud** (C16): when a rule file cannot be compared — assembly fails, rules file missing or ambiguous,
    rule or operand not found, chain offset above 255 — the run ends with a non-zero status -/
theorem C16_compareAll_fatal_is_loud (E : Asm.Engine) (cfg : Asm.Config) (o1 o2 : Parser.Ord) (github : Bool) (t : Tree)
    (pre post : List (Bytes × Bytes)) (p b : Bytes) (hft : isFormatTarget p = true)
    (hbad : ruleOfFileName (baseName p) = some none ∨
      ∃ id k e, ruleOfFileName (baseName p) = some (some (id, k)) ∧ compareRule E cfg o1 o2 t b id k = .error e) :
    (compareAll E cfg o1 o2 github t (pre ++ (p, b) :: post)).ok = false := by
  induction pre with
  | nil =>
    simp only [List.nil_append, compareAll, hft, if_true]
    rcases hbad with h | ⟨id, k, e, h1, h2⟩
    · simp [h]
    · simp [h1, h2]
  | cons qb pre ih =>
    obtain ⟨q, c⟩ := qb
    simp only [List.cons_append, compareAll]
    split
    · split
      · exact ih
      · rfl
      · split
        · rfl
        · exact ih
        · simp [ih]
    · exact ih

/-- non-vacuity: a tree with one up-to-date and one stale rule -/
example : ruleOfFileName (baseName b!"regex-assembly/942100.ra") = some (some (b!"942100", 0)) ∧
    isFormatTarget b!"regex-assembly/942100.ra" = true := by decide

end Crs.Props
