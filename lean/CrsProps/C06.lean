/-
  C06 — include-except removes exactly the excluded entries and rewrites only suffixes.

  Model: `Crs.Parser` (include_except_builder.go: buildinclusionLineMap, removeExclusions,
  stringFromInclusionLines, replaceSuffixes; parser.go: buildPairMap, splitArgs).
  In the model the lines an `include-except` contributes are
  `(dedupLast F).filter (· ∉ X)` followed by `replaceSuffixes`; the theorems say what that is.
-/
import Crs.Parser
import CrsProofs.Lines
namespace Crs.Props
open Crs Crs.Parser

/-- what `include-except` keeps of the lines `F` of the include file, given all lines `X` of the exclusion files -/
def keptLines (F X : List Bytes) : List Bytes := (dedupLast F).filter (fun l => !X.contains l)

theorem dedupLast_sublist (F : List Bytes) : (dedupLast F).Sublist F := by
  induction F with
  | nil => simp [dedupLast]
  | cons l ls ih =>
    simp only [dedupLast]
    split
    · exact List.Sublist.cons _ ih
    · exact List.Sublist.cons_cons _ ih

theorem mem_dedupLast (F : List Bytes) (l : Bytes) : l ∈ dedupLast F ↔ l ∈ F := by
  induction F with
  | nil => simp [dedupLast]
  | cons x xs ih =>
    simp only [dedupLast]
    split
    · rename_i hc
      have hx : x ∈ xs := by simpa using hc
      constructor
      · intro h; exact List.mem_cons_of_mem _ (ih.mp h)
      · intro h
        simp only [List.mem_cons] at h
        rcases h with rfl | h
        · exact ih.mpr hx
        · exact ih.mpr h
    · simp only [List.mem_cons, ih]

theorem dedupLast_nodup (F : List Bytes) : (dedupLast F).Nodup := by
  induction F with
  | nil => simp [dedupLast]
  | cons x xs ih =>
    simp only [dedupLast]
    split
    · exact ih
    · rename_i hc
      have hx : x ∉ xs := by simpa using hc
      exact List.nodup_cons.mpr ⟨fun h => hx ((mem_dedupLast xs x).mp h), ih⟩

/-- **C06 (exactly the non-excluded entries).** An entry is contributed iff it occurs in the include file and in
    no exclusion file: nothing excluded survives, nothing else is dropped. -/
theorem C06_kept_iff (F X : List Bytes) (l : Bytes) : l ∈ keptLines F X ↔ l ∈ F ∧ l ∉ X := by
  simp [keptLines, mem_dedupLast]

/-- **C06 (order).** The surviving entries keep the relative order of the include file (they form a
    subsequence of its lines), each surviving entry once. -/
theorem C06_kept_order (F X : List Bytes) : (keptLines F X).Sublist F ∧ (keptLines F X).Nodup :=
  ⟨(List.filter_sublist).trans (dedupLast_sublist F), (dedupLast_nodup F).filter _⟩

/-- nothing is excluded when the exclusion files are empty or disjoint from the include file -/
theorem C06_kept_disjoint (F X : List Bytes) (h : ∀ l ∈ F, l ∉ X) : keptLines F X = dedupLast F := by
  unfold keptLines
  apply List.filter_eq_self.mpr
  intro l hl
  have := h l ((mem_dedupLast F l).mp hl)
  simpa using this

/-! ### suffix replacement -/

theorem cutSuffix?_some_iff (k e stem : Bytes) : cutSuffix? k e = some stem ↔ e = stem ++ k := by
  unfold cutSuffix?
  constructor
  · intro h
    simp only [Option.map_eq_some_iff] at h
    obtain ⟨r, hr, hrs⟩ := h
    have := (stripPrefix?_some_iff _ _ _).mp hr
    have h2 := congrArg List.reverse this
    simp only [List.reverse_reverse, List.reverse_append] at h2
    rw [h2, hrs]
  · intro h
    subst h
    have : stripPrefix? k.reverse (stem ++ k).reverse = some stem.reverse := by
      rw [List.reverse_append]; exact stripPrefix?_append _ _
    rw [this]; simp

theorem cutSuffix?_none_iff (k e : Bytes) : cutSuffix? k e = none ↔ ¬ k <:+ e := by
  constructor
  · intro h ⟨t, ht⟩
    have := (cutSuffix?_some_iff k e t).mpr ht.symm
    rw [h] at this; simp at this
  · intro h
    cases hc : cutSuffix? k e with
    | none => rfl
    | some stem => exact absurd ⟨stem, ((cutSuffix?_some_iff k e stem).mp hc).symm⟩ h

def quoteQuote : Bytes := b!"\"\""

/-- **C06 (first matching pair).** With the pairs in the order written, an entry that ends in the key of a pair —
    and in no key of an earlier pair — has that ending replaced by the pair's value, or deleted when the value
    is `""`; later pairs are not applied to the result. -/
theorem C06_rewrite_first_match (before : List (Bytes × Bytes)) (k r : Bytes) (after : List (Bytes × Bytes)) (stem : Bytes)
    (hno : ∀ p ∈ before, ¬ p.1 <:+ (stem ++ k)) :
    rewriteEntry (before ++ (k, r) :: after) (stem ++ k) = if r == quoteQuote then stem else stem ++ r := by
  induction before with
  | nil =>
    simp only [List.nil_append, rewriteEntry]
    rw [(cutSuffix?_some_iff k (stem ++ k) stem).mpr rfl]
    rfl
  | cons p ps ih =>
    obtain ⟨pk, pr⟩ := p
    simp only [List.cons_append, rewriteEntry]
    rw [(cutSuffix?_none_iff pk (stem ++ k)).mpr (hno (pk, pr) (by simp))]
    exact ih (fun q hq => hno q (by simp [hq]))

/-- an entry that ends in no key is left alone -/
theorem C06_rewrite_unchanged (pairs : List (Bytes × Bytes)) (e : Bytes) (hno : ∀ p ∈ pairs, ¬ p.1 <:+ e) :
    rewriteEntry pairs e = e := by
  induction pairs with
  | nil => rfl
  | cons p ps ih =>
    obtain ⟨pk, pr⟩ := p
    simp only [rewriteEntry]
    rw [(cutSuffix?_none_iff pk e).mpr (hno (pk, pr) (by simp))]
    exact ih (fun q hq => hno q (by simp [hq]))

/-- the result of a rewrite always starts with the part of the entry before the matched ending: only suffixes change -/
theorem C06_rewrite_keeps_stem (pairs : List (Bytes × Bytes)) (e : Bytes) :
    rewriteEntry pairs e = e ∨ ∃ stem k r, (k, r) ∈ pairs ∧ e = stem ++ k ∧ (rewriteEntry pairs e = stem ∨ rewriteEntry pairs e = stem ++ r) := by
  induction pairs with
  | nil => left; rfl
  | cons p ps ih =>
    obtain ⟨pk, pr⟩ := p
    simp only [rewriteEntry]
    cases hc : cutSuffix? pk e with
    | some stem =>
      right
      refine ⟨stem, pk, pr, by simp, (cutSuffix?_some_iff pk e stem).mp hc, ?_⟩
      simp only
      split
      · left; rfl
      · right; rfl
    | none =>
      simp only
      rcases ih with h | ⟨stem, k, r, hm, he, hr⟩
      · left; exact h
      · right; exact ⟨stem, k, r, by simp [hm], he, hr⟩

/-- **C06 (comments, directives and blank lines are never touched; one output line per input line).** -/
theorem C06_replaceSuffixes_lines (content : Bytes) (pairs : List (Bytes × Bytes)) (hp : pairs ≠ []) :
    replaceSuffixes content pairs =
      unlines ((scanLines content).map fun l => if skipLine l then l else rewriteEntry pairs l) := by
  unfold replaceSuffixes
  have : pairs.isEmpty = false := by cases pairs with | nil => exact absurd rfl hp | cons _ _ => rfl
  simp [this]

theorem C06_skip_directives (l : Bytes) (h : Pat.marker <+: l) : skipLine l = true := by
  unfold skipLine hasPrefix
  simp [List.isPrefixOf_iff_prefix.mpr h]

/-- without a replacement list the text is passed on untouched -/
theorem C06_no_pairs (content : Bytes) : replaceSuffixes content [] = content := by
  simp [replaceSuffixes]

/-! ### the replacement list -/

private theorem pairUp_some_aux (n : Nat) : ∀ l : List Bytes, l.length ≤ n → (buildPairs.pairUp l).isSome = (l.length % 2 == 0) := by
  induction n with
  | zero =>
    intro l hl
    have : l = [] := List.length_eq_zero_iff.mp (by omega)
    subst this; simp [buildPairs.pairUp]
  | succ n ih =>
    intro l hl
    match l, hl with
    | [], _ => simp [buildPairs.pairUp]
    | [x], _ => simp [buildPairs.pairUp]
    | x :: y :: r, hl =>
      simp only [buildPairs.pairUp, Option.isSome_map, List.length_cons]
      rw [ih r (by simp at hl; omega)]
      have e : (r.length + 1 + 1) % 2 = r.length % 2 := by omega
      rw [e]

private theorem pairUp_some_iff (l : List Bytes) : (buildPairs.pairUp l).isSome = (l.length % 2 == 0) :=
  pairUp_some_aux l.length l (Nat.le_refl _)

/-- **C06 (odd list).** A replacement list with an odd number of arguments is rejected (`buildPairMap` panics);
    a blank one means "no replacements". -/
theorem C06_pairs_odd_rejected (input : Bytes) :
    buildPairs input = none ↔ (isBlank input = false ∧ (Pat.splitArgs input).length % 2 = 1) := by
  unfold buildPairs
  by_cases hb : isBlank input = true
  · simp [hb]
  · have hb' : isBlank input = false := by simpa using hb
    simp only [hb', Bool.false_eq_true, if_false, true_and]
    have := pairUp_some_iff (Pat.splitArgs input)
    cases hp : buildPairs.pairUp (Pat.splitArgs input) with
    | none =>
      rw [hp] at this
      simp only [Option.isSome_none] at this
      constructor
      · intro _
        have := this.symm
        simp only [beq_eq_false_iff_ne, ne_eq] at this
        omega
      · intro _; rfl
    | some ps =>
      rw [hp] at this
      simp only [Option.isSome_some] at this
      constructor
      · intro h; simp at h
      · intro h
        have := this.symm
        simp only [beq_iff_eq] at this
        omega

/-- non-vacuity: the chained pairs `@ ~ ~ x` of the repaired defect D02 rewrite `foo@` to `foo~` (first match only) -/
example : (buildPairs "@ ~ ~ x".toList).map (fun ps => rewriteEntry ps "foo@".toList) = some "foo~".toList ∧
    (buildPairs "@ \"\"".toList).map (fun ps => rewriteEntry ps "foo@".toList) = some "foo".toList ∧
    buildPairs "@ ~ x".toList = none := by
  decide

end Crs.Props
