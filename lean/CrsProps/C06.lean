import Crs.Parser
namespace Crs.Props
theorem C06_placeholder : True := trivial
end Crs.Props
