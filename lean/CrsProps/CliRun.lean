/-
  C13 / C15 / C16 on the invocation model `Crs.Cli.run` — the wiring of cmd/*.go: argument validators, the output
  option, which function runs with which flags.

  * C16: an unknown output format, both or neither of RULE_ID and --all, more than one argument, a missing or refused
    version: the command fails and the tree is as it was (`C16_run_bad_output`, `C16_run_bad_target`,
    `C16_run_copyright_needs_version`).
  * C15: generate and compare never change the tree; with --check neither do format and renumber-tests
    (`C15_run_inspects`).
  * C13 (and C12, C14): the output format is no write mode — what a command leaves in the tree does not depend on `-o`
    (`run_tree_output_free`); for every command but compare not even the exit status does (`run_output_free`);
    generate, update and update-copyright print the same, too (`run_output_free_full`).
-/
import Crs.Cli
import CrsProps.C15
namespace Crs.Props
open Crs Crs.Cli

/-- the values the output option takes -/
def OutputOk (o : Option Bytes) : Prop := o = none ∨ o = some b!"text" ∨ o = some b!"github"

/-- **C16.** an unknown output format ends the run: non-zero status, nothing printed, the tree as it was -/
theorem C16_run_bad_output (E : Asm.Engine) (cfg : Asm.Config) (o1 o2 : Parser.Ord) (lint : Bytes → Bool) (vOk : Bool)
    (inv : Invocation) (t : Tree) (v : Bytes) (ho : inv.output = some v) (h1 : v ≠ b!"text") (h2 : v ≠ b!"github") :
    run E cfg o1 o2 lint vOk inv t = some ⟨false, t, []⟩ := by
  unfold run
  simp only [ho]
  have e1 : (v == b!"text") = false := by simpa using h1
  have e2 : (v == b!"github") = false := by simpa using h2
  simp [e1, e2]

/-- **C16.** update, compare, format, renumber-tests: anything but exactly one of RULE_ID and --all is refused -/
theorem C16_run_bad_target (E : Asm.Engine) (cfg : Asm.Config) (o1 o2 : Parser.Ord) (lint : Bytes → Bool) (vOk : Bool)
    (inv : Invocation) (t : Tree) (ho : OutputOk inv.output)
    (hc : inv.cmd = .update ∨ inv.cmd = .compare ∨ inv.cmd = .format ∨ inv.cmd = .renumber)
    (hb : oneTarget inv = false) :
    run E cfg o1 o2 lint vOk inv t = some ⟨false, t, []⟩ := by
  unfold run
  rcases ho with ho | ho | ho <;> rcases hc with hc | hc | hc | hc <;>
    simp [ho, run.go, hc, hb]

/-- **C16.** update-copyright without a version, with an empty one or with one the version library refuses -/
theorem C16_run_copyright_needs_version (E : Asm.Engine) (cfg : Asm.Config) (o1 o2 : Parser.Ord) (lint : Bytes → Bool) (vOk : Bool)
    (inv : Invocation) (t : Tree) (ho : OutputOk inv.output) (hc : inv.cmd = .copyright)
    (hv : inv.version = none ∨ inv.version = some [] ∨ vOk = false) :
    run E cfg o1 o2 lint vOk inv t = some ⟨false, t, []⟩ := by
  unfold run
  rcases ho with ho | ho | ho <;> rcases hv with hv | hv | hv <;>
    first
    | (simp [ho, run.go, hc, hv]; done)
    | (simp [ho, run.go, hc, hv]; split <;> rfl)

theorem setFile_same (p b : Bytes) (t : Tree) (h : lookup p t = some b) : setFile p b t = t := by
  induction t with
  | nil => rfl
  | cons x rest ih =>
    obtain ⟨q, c⟩ := x
    simp only [lookup] at h
    simp only [setFile]
    by_cases hq : (q == p) = true
    · simp only [hq, if_true, Option.some.injEq] at h
      simp [hq, h]
    · simp only [hq, Bool.false_eq_true, if_false] at h ⊢
      rw [ih h]

/-- a single-file `format --check` leaves the tree as it is -/
theorem formatCmd_check_tree (github : Bool) (lint : Bytes → Bool) (t : Tree) (arg : Bytes) (r : RunResult)
    (h : formatCmd true github lint t arg = some r) : r.tree = t := by
  unfold formatCmd at h
  simp only [] at h
  split at h
  · simp at h
  · split at h
    · simp only [Option.some.injEq] at h; subst h
      unfold formatAt
      split
      · rfl
      · rename_i b hb
        split
        · rfl
        · simp only [formatOne]
          split <;> exact setFile_same _ b t hb
    · simp only [Option.some.injEq] at h; subst h; rfl

/-- **C15 (format, single target).** Whatever the argument looks like — path separators, `..`, other extensions —
    `regex format ARG` either leaves the tree as it is or rewrites exactly one file, and that file is a `.ra` file below
    regex-assembly (`isFormatTarget`), replaced by its formatted text. -/
theorem C15_format_single_target (check github : Bool) (lint : Bytes → Bool) (t : Tree) (arg : Bytes) (r : RunResult)
    (h : formatCmd check github lint t arg = some r) :
    r.tree = t ∨ ∃ p b, isFormatTarget p = true ∧ lookup p t = some b ∧ r.tree = setFile p (formatOne check (lint p) b).1 t := by
  unfold formatCmd at h
  simp only [] at h
  split at h
  · simp at h
  · split at h
    · rename_i hp
      simp only [Option.some.injEq] at h; subst h
      unfold formatAt
      split
      · exact .inl rfl
      · rename_i b hb
        split
        · exact .inl rfl
        · exact .inr ⟨_, b, hp, hb, rfl⟩
    · simp only [Option.some.injEq] at h; subst h; exact .inl rfl

/-- a single-file `renumber-tests --check` leaves the tree as it is -/
theorem renumberCmd_check_tree (t : Tree) (arg : Bytes) (r : RunResult)
    (h : renumberCmd true t arg = some r) : r.tree = t := by
  unfold renumberCmd at h
  split at h
  · simp at h
  split at h
  · simp at h
  · split at h
    · split at h
      · simp only [Option.some.injEq] at h; subst h; rfl
      · split at h
        · simp only [Option.some.injEq] at h; subst h; rfl
        · split at h
          · simp only [Option.some.injEq] at h; subst h; rfl
          · simp only [] at h
            split at h
            · simp only [Option.some.injEq] at h; subst h; rfl
            · rename_i c hc
              simp only [renumberOne] at h
              split at h
              · simp only [Option.some.injEq] at h; subst h
                exact setFile_same _ c t hc
              · simp only [if_true, Option.some.injEq] at h; subst h
                exact setFile_same _ c t hc
    · simp only [Option.some.injEq] at h; subst h; rfl

/-- **C15.** generate and compare inspect; so do format and renumber-tests under --check -/
theorem C15_run_inspects (E : Asm.Engine) (cfg : Asm.Config) (o1 o2 : Parser.Ord) (lint : Bytes → Bool) (vOk : Bool)
    (inv : Invocation) (t : Tree) (r : RunResult)
    (hc : inv.cmd = .generate ∨ inv.cmd = .compare ∨ (inv.check = true ∧ (inv.cmd = .format ∨ inv.cmd = .renumber)))
    (h : run E cfg o1 o2 lint vOk inv t = some r) : r.tree = t := by
  have key : ∀ g, run.go E cfg o1 o2 lint vOk inv t g = some r → r.tree = t := by
    intro g hg
    unfold run.go at hg
    rcases hc with hc | hc | ⟨hk, hc | hc⟩
    · simp only [hc] at hg
      split at hg
      · split at hg
        · split at hg <;> (simp only [Option.some.injEq] at hg; subst hg; rfl)
        · simp only [Option.some.injEq] at hg; subst hg
          simp only [generateCmd]
          split
          · rfl
          · split
            · rfl
            · split <;> rfl
      · simp only [Option.some.injEq] at hg; subst hg; rfl
    · simp only [hc] at hg
      split at hg
      · simp only [Option.some.injEq] at hg; subst hg; rfl
      · split at hg
        · simp only [Option.some.injEq] at hg; subst hg; rfl
        · split at hg <;> (simp only [Option.some.injEq] at hg; subst hg; rfl)
    · simp only [hc, hk] at hg
      split at hg
      · simp only [Option.some.injEq] at hg; subst hg; rfl
      · split at hg
        · simp only [Option.some.injEq] at hg; subst hg
          exact C15_format_check_writes_nothing lint t
        · split at hg
          · split at hg
            · simp only [Option.some.injEq] at hg; subst hg; rfl
            · exact formatCmd_check_tree _ lint t _ r hg
          · simp only [Option.some.injEq] at hg; subst hg; rfl
    · simp only [hc, hk] at hg
      split at hg
      · simp only [Option.some.injEq] at hg; subst hg; rfl
      · split at hg
        · simp only [Option.some.injEq] at hg; subst hg
          exact C15_renumber_check_writes_nothing t
        · split at hg
          · split at hg
            · simp only [Option.some.injEq] at hg; subst hg; rfl
            · exact renumberCmd_check_tree t _ r hg
          · simp only [Option.some.injEq] at hg; subst hg; rfl
  unfold run at h
  split at h
  · split at h
    · exact key _ h
    · simp only [Option.some.injEq] at h; subst h; rfl
  · exact key _ h

/-- exit status and tree of a result -/
def core (r : RunResult) : Bool × Tree := (r.ok, r.tree)

/-- status and tree of a single-file format do not depend on the output format -/
theorem formatCmd_core (check g g' : Bool) (lint : Bytes → Bool) (t : Tree) (arg : Bytes) :
    (formatCmd check g lint t arg).map core = (formatCmd check g' lint t arg).map core := by
  unfold formatCmd
  simp only []
  split
  · rfl
  · split
    · simp only [Option.map_some, formatAt]
      split
      · rfl
      · split <;> rfl
    · rfl

/-- the body of a command decides status and tree without looking at the output format, unless the command is compare
    (format and renumber-tests *print* differently in GitHub mode) -/
theorem go_output_free (E : Asm.Engine) (cfg : Asm.Config) (o1 o2 : Parser.Ord) (lint : Bytes → Bool) (vOk : Bool)
    (inv : Invocation) (t : Tree) (hc : inv.cmd ≠ .compare) (g g' : Bool) :
    (run.go E cfg o1 o2 lint vOk inv t g).map core = (run.go E cfg o1 o2 lint vOk inv t g').map core := by
  unfold run.go
  cases hcmd : inv.cmd
  case compare => exact absurd hcmd hc
  case format =>
    simp only []
    split
    · rfl
    · split
      · rfl
      · split
        · split
          · rfl
          · exact formatCmd_core _ g g' lint t _
        · rfl
  case renumber =>
    simp only []
    split
    · rfl
    · split
      · rfl
      · rfl
  all_goals rfl

/-- generate, update and update-copyright do not look at the output format at all: status, tree and standard output -/
theorem go_output_free_full (E : Asm.Engine) (cfg : Asm.Config) (o1 o2 : Parser.Ord) (lint : Bytes → Bool) (vOk : Bool)
    (inv : Invocation) (t : Tree) (hc : inv.cmd = .generate ∨ inv.cmd = .update ∨ inv.cmd = .copyright) (g g' : Bool) :
    run.go E cfg o1 o2 lint vOk inv t g = run.go E cfg o1 o2 lint vOk inv t g' := by
  unfold run.go
  rcases hc with hc | hc | hc <;> simp only [hc]

/-- **the output format is no write mode and no verdict switch** (C13, C12, C14): for every command but compare, exit
    status and tree are the same under `-o github`, `-o text` and without the option -/
theorem run_output_free (E : Asm.Engine) (cfg : Asm.Config) (o1 o2 : Parser.Ord) (lint : Bytes → Bool) (vOk : Bool)
    (inv : Invocation) (t : Tree) (hc : inv.cmd ≠ .compare) (o o' : Option Bytes) (ho : OutputOk o) (ho' : OutputOk o') :
    (run E cfg o1 o2 lint vOk { inv with output := o } t).map core = (run E cfg o1 o2 lint vOk { inv with output := o' } t).map core := by
  have hgo : ∀ (x : Option Bytes) (g : Bool), run.go E cfg o1 o2 lint vOk { inv with output := x } t g = run.go E cfg o1 o2 lint vOk inv t g := by
    intro x g; unfold run.go; rfl
  have e : ∀ x, OutputOk x → (run E cfg o1 o2 lint vOk { inv with output := x } t).map core = (run.go E cfg o1 o2 lint vOk inv t false).map core := by
    intro x hx
    unfold run
    rcases hx with rfl | rfl | rfl
    · simp only; rw [hgo]
    · simp only
      have : (b!"text" == b!"text" || b!"text" == b!"github") = true := by decide
      simp only [this, if_true]
      rw [hgo]; exact go_output_free E cfg o1 o2 lint vOk inv t hc _ _
    · simp only
      have : (b!"github" == b!"text" || b!"github" == b!"github") = true := by decide
      simp only [this, if_true]
      rw [hgo]; exact go_output_free E cfg o1 o2 lint vOk inv t hc _ _
  rw [e o ho, e o' ho']

/-- … and generate, update and update-copyright print the same, too -/
theorem run_output_free_full (E : Asm.Engine) (cfg : Asm.Config) (o1 o2 : Parser.Ord) (lint : Bytes → Bool) (vOk : Bool)
    (inv : Invocation) (t : Tree) (hc : inv.cmd = .generate ∨ inv.cmd = .update ∨ inv.cmd = .copyright)
    (o o' : Option Bytes) (ho : OutputOk o) (ho' : OutputOk o') :
    run E cfg o1 o2 lint vOk { inv with output := o } t = run E cfg o1 o2 lint vOk { inv with output := o' } t := by
  have hgo : ∀ (x : Option Bytes) (g : Bool), run.go E cfg o1 o2 lint vOk { inv with output := x } t g = run.go E cfg o1 o2 lint vOk inv t g := by
    intro x g; unfold run.go; rfl
  have e : ∀ x, OutputOk x → run E cfg o1 o2 lint vOk { inv with output := x } t = run.go E cfg o1 o2 lint vOk inv t false := by
    intro x hx
    unfold run
    rcases hx with rfl | rfl | rfl
    · simp only; exact hgo _ _
    · simp only
      have : (b!"text" == b!"text" || b!"text" == b!"github") = true := by decide
      simp only [this, if_true]
      rw [hgo]; exact go_output_free_full E cfg o1 o2 lint vOk inv t hc _ _
    · simp only
      have : (b!"github" == b!"text" || b!"github" == b!"github") = true := by decide
      simp only [this, if_true]
      rw [hgo]; exact go_output_free_full E cfg o1 o2 lint vOk inv t hc _ _
  rw [e o ho, e o' ho']

/-- … and for compare the tree is out of the question anyway: whatever the output format, what a command leaves in the
    tree is the same -/
theorem run_tree_output_free (E : Asm.Engine) (cfg : Asm.Config) (o1 o2 : Parser.Ord) (lint : Bytes → Bool) (vOk : Bool)
    (inv : Invocation) (t : Tree) (o o' : Option Bytes) (ho : OutputOk o) (ho' : OutputOk o') :
    (run E cfg o1 o2 lint vOk { inv with output := o } t).map (·.tree) = (run E cfg o1 o2 lint vOk { inv with output := o' } t).map (·.tree) := by
  by_cases hc : inv.cmd = .compare
  · -- compare: the tree is t whenever the run is defined, and definedness does not depend on the format
    have sh : ∀ x, OutputOk x → (run E cfg o1 o2 lint vOk { inv with output := x } t).map (·.tree) = some t := by
      intro x hx
      have hdef : ∃ r, run E cfg o1 o2 lint vOk { inv with output := x } t = some r := by
        unfold run
        rcases hx with rfl | rfl | rfl <;> simp [run.go, hc] <;> (split <;> first | exact ⟨_, rfl⟩ | (split <;> first | exact ⟨_, rfl⟩ | (split <;> exact ⟨_, rfl⟩)))
      obtain ⟨r, hr⟩ := hdef
      rw [hr]
      simp only [Option.map_some]
      exact congrArg some (C15_run_inspects E cfg o1 o2 lint vOk { inv with output := x } t r (.inr (.inl hc)) hr)
    rw [sh o ho, sh o' ho']
  · have h := run_output_free E cfg o1 o2 lint vOk inv t hc o o' ho ho'
    have hm : ∀ x : Option RunResult, x.map (·.tree) = (x.map core).map Prod.snd := by
      intro x; cases x <;> rfl
    rw [hm, hm, h]

/-- non-vacuity: `-o GitHub` is refused; `update` with both a rule and --all is refused -/
example : OutputOk (some b!"github") ∧ b!"GitHub" ≠ b!"text" ∧ b!"GitHub" ≠ b!"github" ∧
    oneTarget { cmd := .update, args := [b!"942100"], all := true } = false ∧
    oneTarget { cmd := .update, args := [b!"942100"] } = true := by
  refine ⟨.inr (.inr rfl), by decide, by decide, by decide, by decide⟩

end Crs.Props

namespace Crs.Props
open Crs Crs.Cli

/-- **C13 (single file).** `util renumber-tests ARG [--check]` — whatever the argument looks like: path separators, `..`,
    any extension — either leaves the tree as it is, or rewrites exactly one file, and that file is one `--all` would take
    too (`renumberId?`: below tests/regression/tests, named `NNNNNN.yaml|yml`); what is written is the renumbering of that
    file under the id taken from *its* name (not from the argument), and the status is that file's. -/
theorem C13_single_file (check : Bool) (t : Tree) (arg : Bytes) (r : RunResult) (h : renumberCmd check t arg = some r) :
    r.tree = t ∨ ∃ p id c, renumberId? p = some id ∧ lookup p t = some c ∧
      r.tree = setFile p (renumberOne check id c).1 t ∧ r.ok = (renumberOne check id c).2 := by
  unfold renumberCmd at h
  split at h
  · simp at h
  split at h
  · simp at h
  · split at h
    · rename_i p isFile _
      split at h
      · simp only [Option.some.injEq] at h; subst h; exact Or.inl rfl
      · rename_i hin
        split at h
        · simp only [Option.some.injEq] at h; subst h; exact Or.inl rfl
        · rename_i id hid
          split at h
          · simp only [Option.some.injEq] at h; subst h; exact Or.inl rfl
          · simp only [] at h
            split at h
            · simp only [Option.some.injEq] at h; subst h; exact Or.inl rfl
            · rename_i c hc
              simp only [Option.some.injEq] at h; subst h
              refine Or.inr ⟨p, id, c, ?_, hc, rfl, rfl⟩
              have hin' : inDir b!"tests/regression/tests" p = true := by
                simpa using hin
              simp [renumberId?, hin', hid]
    · simp only [Option.some.injEq] at h; subst h; exact Or.inl rfl

end Crs.Props

namespace Crs.Props
open Crs Crs.Cli

/-- **C18 (`generate ARG` is `generate -` on the file).** When the argument resolves to an assembly file of the tree,
    `regex generate ARG` is — exit status, standard output, tree — `regex generate -` with that file's contents on
    standard input, under every output option, configuration and engine: the argument decides *which* bytes are
    compiled and nothing else. -/
theorem C18_generate_arg_is_stdin (E : Asm.Engine) (cfg : Asm.Config) (o1 o2 : Parser.Ord) (lint : Bytes → Bool) (vOk : Bool)
    (inv : Invocation) (t : Tree) (arg : Bytes) (ra : Update.RuleArg) (b : Bytes)
    (hc : inv.cmd = .generate) (harg : (arg == b!"-") = false)
    (h1 : Update.parseRuleId arg = .ok ra) (h2 : lookup (assemblyPath ra.fileName) t = some b) :
    run E cfg o1 o2 lint vOk { inv with args := [arg] } t =
      run E cfg o1 o2 lint vOk { inv with args := [b!"-"], stdin := b } t := by
  have hgo : ∀ g, run.go E cfg o1 o2 lint vOk { inv with args := [arg] } t g =
      run.go E cfg o1 o2 lint vOk { inv with args := [b!"-"], stdin := b } t g := by
    intro g
    unfold run.go
    have hd : (b!"-" == b!"-") = true := by decide
    simp only [hc, harg, hd, Bool.false_eq_true, if_false, if_true, generateCmd, h1, h2]
    cases (runFile E cfg o1 o2 {} (fsOf t) b).2 <;> rfl
  unfold run
  simp only [hgo]

end Crs.Props

namespace Crs.Props
open Crs Crs.Cli

/-! ### what is printed and the status belong together (format, renumber-tests) -/

theorem renumberWalk_status (check g : Bool) (t : Tree) :
    (renumberAll check t).ok = !(renumberWalkOut check g t).2 := by
  induction t with
  | nil => rfl
  | cons x rest ih =>
    obtain ⟨p, b⟩ := x
    unfold renumberAll renumberWalkOut
    cases hid : renumberId? p with
    | none => simpa using ih
    | some id =>
      simp only [renumberOne, ih]
      by_cases hch : (Crs.Renumber.processYaml id b == b) = true
      · have hne : (Crs.Renumber.processYaml id b != b) = false := by simp [bne, hch]
        simp [hch, hne]
      · simp only [Bool.not_eq_true] at hch
        have hne : (Crs.Renumber.processYaml id b != b) = true := by simp [bne, hch]
        cases check <;> simp [hch, hne]

/-- **C16 (renumber-tests --all in GitHub mode is loud on standard output).** When the run fails, the last thing printed
    is the `::error::` line that tells CI what to do. -/
theorem C16_renumber_github_notice (check : Bool) (t : Tree) (h : (renumberAll check t).ok = false) :
    ∃ o, renumberAllOut check true t = o ++ renumberAllNotice := by
  have hs := renumberWalk_status check true t
  rw [h] at hs
  unfold renumberAllOut
  generalize renumberWalkOut check true t = w at hs
  obtain ⟨o, f⟩ := w
  have hf : f = true := by
    cases f
    · exact absurd hs (by simp)
    · rfl
  subst hf
  exact ⟨o, rfl⟩

/-- … and a run that succeeds prints no `::error::` line: its output is the warnings of the walk alone -/
theorem C16_renumber_github_quiet (check g : Bool) (t : Tree) (h : (renumberAll check t).ok = true) :
    renumberAllOut check g t = (renumberWalkOut check g t).1 := by
  have hs := renumberWalk_status check g t
  rw [h] at hs
  unfold renumberAllOut
  generalize renumberWalkOut check g t = w at hs
  obtain ⟨o, f⟩ := w
  have hf : f = false := by
    cases f
    · rfl
    · exact absurd hs (by simp)
  subst hf
  rfl

theorem formatWalk_status (check g : Bool) (lint : Bytes → Bool) (t : Tree) :
    (formatAll check lint t).ok = !(formatWalkOut check g lint t).2.1 := by
  induction t with
  | nil => rfl
  | cons x rest ih =>
    obtain ⟨p, b⟩ := x
    unfold formatAll formatWalkOut
    by_cases hp : isFormatTarget p = true
    · simp only [hp, if_true]
      by_cases hq : parseable b = true
      · simp only [hq, Bool.not_true, Bool.false_eq_true, if_false, ih]
        cases (formatOne check (lint p) b).2 <;> simp
      · simp only [Bool.not_eq_true] at hq
        simp [hq]
    · simp only [hp, Bool.false_eq_true, if_false]
      exact ih

/-- **C16 (format --all in GitHub mode is loud on standard output).** When the run fails and was not ended by a parser
    panic (which ends the process with its own message on stderr), the last thing printed is the `::error::` line. -/
theorem C16_format_github_notice (check : Bool) (lint : Bytes → Bool) (t : Tree)
    (h : (formatAll check lint t).ok = false) (hp : (formatWalkOut check true lint t).2.2 = false) :
    ∃ o, formatAllOut check true lint t = o ++ formatAllNotice := by
  have hs := formatWalk_status check true lint t
  rw [h] at hs
  unfold formatAllOut
  generalize formatWalkOut check true lint t = w at hs hp
  obtain ⟨o, f, e⟩ := w
  simp only at hp hs
  have hf : f = true := by
    cases f
    · exact absurd hs (by simp)
    · rfl
  subst hf
  subst hp
  exact ⟨o, rfl⟩

end Crs.Props
