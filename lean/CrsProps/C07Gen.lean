/-
  C07, the text-level reading: expanding definitions works on every line of the parser's text on its own.

  `C07_expansion_line_by_line`: for a table of definitions with names as `DefinitionRegex` admits them (any values
  without a line feed), `applyVars` — the second loop of `expandDefinitions`, `strings.ReplaceAll` of `{{name}}` on the
  whole text, name after name — gives, for a text made of lines, the text made of the lines with `applyVars` applied
  to each of them: a reference is replaced where it stands, no replacement reaches across a line end, nothing else of
  the line changes (`C07_unreferenced_unchanged` for lines without a reference). Together with `C07_order_free` (the
  result does not depend on the visiting order) and `C07_no_defined_reference_left` this is the reading "as if the
  value had been typed there", line by line.
-/
import CrsProofs.FormatGen
namespace Crs.Props
open Crs Crs.Parser Crs.FormatGen

theorem replaceAll_unlines (old new : Bytes) (hnl : '\n' ∉ old) (L : List Bytes) :
    replaceAll (unlines L) old new = unlines (L.map (fun l => replaceAll l old new)) := by
  induction L with
  | nil => simp [replaceAll_nil]
  | cons l L ih =>
    rw [unlines_cons, replaceAll_sep old new '\n' l (unlines L) hnl, ih]
    simp [unlines_cons]

theorem applyStep_unlines (vs : Vars) (hv : NamesOK vs) (n : Bytes) (L : List Bytes) :
    applyStep vs (unlines L) n = unlines (L.map (fun l => applyStep vs l n)) := by
  unfold applyStep
  cases h : assocLookup n vs with
  | none => simp
  | some r => exact replaceAll_unlines _ _ (nl_not_mem_refOf n (hv _ (lookup_mem h))) L

/-- **C07 (line by line).** See the head of this file. -/
theorem C07_expansion_line_by_line (ord : List Bytes) (vs : Vars) (hv : NamesOK vs) (L : List Bytes) :
    applyVars ord vs (unlines L) = unlines (L.map (applyVars ord vs)) := by
  unfold applyVars
  induction ord generalizing L with
  | nil => simp
  | cons n ord ih =>
    simp only [List.foldl_cons]
    rw [applyStep_unlines vs hv n L, ih]
    simp [List.map_map, Function.comp_def]

/-- the same for the whole of `expandDefinitions`: the text it returns is made of the lines of the text it was given,
    each with the (closed) definitions applied -/
theorem C07_expandDefinitions_line_by_line (ord1 ord2 : List Bytes) (vs : Vars) (hv : NamesOK vs) (L : List Bytes) :
    (expandDefinitions ord1 ord2 (unlines L) vs).1 = unlines (L.map (applyVars ord2 (closeVars ord1 vs))) := by
  simp only [expandDefinitions]
  exact C07_expansion_line_by_line ord2 _ (closeVars_namesOK ord1 vs hv) L

/-- non-vacuity and a sanity check: two lines, one reference each, a quantifier brace left alone -/
example : applyVars [b!"d"] [(b!"d", b!"[0-9]")] (unlines [b!"a{{d}}b", b!"x{2}{{d}}"]) = unlines [b!"a[0-9]b", b!"x{2}[0-9]"] := by
  decide +kernel

end Crs.Props
