/-
  C17 — no silent truncation: long lines and large files are processed completely.

  Every line scanner of the toolchain is modelled by `scanLines` (no token limit: the code sets
  `math.MaxInt` at every site since the repair of D03; the correspondence check feeds lines of
  64 KiB ± 1 … 1 MiB through every site). `scanLinesLim` is the scanner with Go's default limit,
  kept to state what the repair removed.
-/
import Crs.Bytes
import Crs.Renumber
import Crs.Copyright
import Crs.Format
import CrsProofs.Lines
namespace Crs.Props
open Crs

/-- **C17 (the scanner loses nothing).** Scanning yields every line of the input, in order, each with at
    most one trailing carriage return removed; no line length enters the result. -/
theorem C17_scan_total (b : Bytes) : scanLines b = (rawLines b).map dropCR := rfl

private theorem joinNl_append_nl (y : Bytes) (ys : List Bytes) : joinNl (y :: ys) ++ ['\n'] = unlines (y :: ys) := by
  induction ys generalizing y with
  | nil => simp [joinNl, joinCh, unlines]
  | cons z zs ih =>
    have h := ih z
    have e1 : joinNl (y :: z :: zs) = y ++ '\n' :: joinNl (z :: zs) := by simp [joinNl, joinCh]
    rw [e1, unlines_cons, List.append_assoc, List.cons_append, h]

/-- the lines account for every byte: joining them with `\n` (plus the final `\n` if there was one) gives the file back -/
theorem C17_rawLines_cover (b : Bytes) :
    joinNl (rawLines b) = b ∨ joinNl (rawLines b) ++ ['\n'] = b := by
  unfold rawLines
  have hj := joinNl_splitNl b
  cases hl : (splitNl b).getLast? with
  | none => left; simpa [hl] using hj
  | some l =>
    cases l with
    | cons c cs => left; simpa [hl] using hj
    | nil =>
      simp only
      obtain ⟨ys, hys⟩ := List.getLast?_eq_some_iff.mp hl
      rw [hys] at hj ⊢
      simp only [List.dropLast_concat]
      cases ys with
      | nil => left; simpa [joinNl, joinCh] using hj
      | cons y ys' =>
        right
        rw [← hj, joinNl_snoc_nil, joinNl_append_nl]

/-- with the default token limit the scanner stops at the first long line: everything it returns is a
    prefix of the complete result … -/
theorem C17_limited_is_prefix (max : Nat) (b : Bytes) : scanLinesLim max b <+: scanLines b := by
  unfold scanLinesLim scanLines
  exact List.IsPrefix.map _ (List.takeWhile_prefix _)

/-- … and it is complete exactly when no line reaches the limit. -/
theorem C17_limited_complete (max : Nat) (b : Bytes) (h : ∀ l ∈ rawLines b, l.length < max) :
    scanLinesLim max b = scanLines b := by
  have key : ∀ ls : List Bytes, (∀ l ∈ ls, l.length < max) → ls.takeWhile (fun l => decide (l.length < max)) = ls := by
    intro ls
    induction ls with
    | nil => intro _; rfl
    | cons l ls ih =>
      intro hls
      have hl := hls l (by simp)
      rw [List.takeWhile_cons, if_pos (by simpa using hl), ih (fun x hx => hls x (by simp [hx]))]
  unfold scanLinesLim scanLines
  rw [key _ h]

/-- the defect that was repaired (D03), in the small: with a limit of 3 the line `aaaa` and the entry after it vanish -/
theorem C17_default_limit_truncates :
    scanLinesLim 3 "x\naaaa\ntail\n".toList = ["x".toList] ∧
    scanLines "x\naaaa\ntail\n".toList = ["x".toList, "aaaa".toList, "tail".toList] := by
  decide

/-! ### every line-oriented command carries all lines through -/

/-- renumber-tests: as many lines out as in (before the end-of-file rule removes trailing blank lines) -/
theorem C17_renumber_all_lines (r : Bytes) (st : Renumber.St) (ls : List Bytes) :
    (Renumber.renumberLines r st ls).length = ls.length := by
  induction ls generalizing st with
  | nil => simp [Renumber.renumberLines]
  | cons l ls ih => simp [Renumber.renumberLines, ih]

/-- update-copyright: the output consists of one rewritten line per input line, in order -/
theorem C17_copyright_all_lines (v y b : Bytes) :
    Copyright.updateRules v y b = unlines ((rawLines b).map (fun l => Copyright.stepLine v y (dropCR l))) := by
  unfold Copyright.updateRules scanLines
  rw [List.map_map]
  rfl

/-- format: the formatter sees one line per input line -/
theorem C17_format_all_lines (ls : List Bytes) (n : Nat) (out : List Bytes)
    (h : Format.formatLines ls n = some out) : out.length = ls.length := by
  induction ls generalizing n out with
  | nil => simp [Format.formatLines] at h; simp [← h]
  | cons l ls ih =>
    simp only [Format.formatLines] at h
    split at h
    · simp at h
    · rename_i l' n' _
      split at h
      · simp at h
      · rename_i rest hr
        simp only [Option.some.injEq] at h
        rw [← h]
        simp [ih n' rest hr]

end Crs.Props
