import Crs.Update
namespace Crs.Props
theorem C17_placeholder : True := trivial
end Crs.Props
