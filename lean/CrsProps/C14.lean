/-
  C14 — update-copyright sets version and year everywhere, whatever was there before.

  Model: `Crs.Copyright` (chore/update_copyright.go: updateRules; regex/definitions.go: the five
  marker patterns).
-/
import Crs.Copyright
import CrsProofs.Lines
import CrsProofs.Sub2
namespace Crs.Props
open Crs Crs.Copyright

/-- characters that can occur in a version accepted by `validateSemver` (Masterminds grammar) -/
def isVerCh (c : Char) : Bool := isLower c || isUpper c || isDigit c || c == '.' || c == '-' || c == '+'

/-- an accepted version, as far as the markers are concerned: non-empty, over the semver alphabet -/
def VersionOk (v : Bytes) : Prop := v ≠ [] ∧ ∀ c ∈ v, isVerCh c = true

private theorem verCh_ne {c d : Char} (h : isVerCh c = true) (hd : isVerCh d = false) : c ≠ d := by
  intro e; subst e; rw [h] at hd; exact absurd hd (by simp)

/-! ### every marker pattern on its own: the last invocation wins -/

/-- header line `# OWASP CRS ver.X`: whatever version a run wrote, the next run replaces all of it -/
theorem C14_header_last_wins (v1 v2 l : Bytes) (h1 : v1 ≠ []) :
    sub1 v2 (sub1 v1 l) = sub1 v2 l := by
  have ha : ∀ v : Bytes, v ≠ [] → sub1 v2 (p1a ++ v) = p1a ++ v2 := by
    intro v hv
    unfold sub1
    rw [stripPrefix?_append]
    cases v with
    | nil => exact absurd rfl hv
    | cons c cs => rfl
  have hb : ∀ v : Bytes, v ≠ [] → sub1 v2 (p1b ++ v) = p1b ++ v2 := by
    intro v hv
    unfold sub1
    have : stripPrefix? p1a (p1b ++ v) = none := by simp [p1a, p1b, stripPrefix?]
    rw [this, stripPrefix?_append]
    cases v with
    | nil => exact absurd rfl hv
    | cons c cs => rfl
  unfold sub1
  cases hA : stripPrefix? p1a l with
  | some rest =>
    cases rest with
    | nil =>
      simp only
      cases hB : stripPrefix? p1b l with
      | some rest' =>
        cases rest' with
        | nil => simp only; rw [hA, hB]
        | cons c cs =>
          simp only
          have := hb v1 h1
          unfold sub1 at this
          exact this
      | none => simp only; rw [hA, hB]
    | cons c cs =>
      simp only
      have := ha v1 h1
      unfold sub1 at this
      exact this
  | none =>
    simp only
    cases hB : stripPrefix? p1b l with
    | some rest' =>
      cases rest' with
      | nil => simp only; rw [hA, hB]
      | cons c cs =>
        simp only
        have := hb v1 h1
        unfold sub1 at this
        exact this
    | none => simp only; rw [hA, hB]

private theorem takeWhile_append_of_all {α} (p : α → Bool) (a b : List α) (h : ∀ x ∈ a, p x = true) :
    (a ++ b).takeWhile p = a ++ b.takeWhile p := by
  induction a with
  | nil => rfl
  | cons x xs ih =>
    simp [List.takeWhile, h x (by simp), ih (fun y hy => h y (by simp [hy]))]

private theorem dropWhile_append_of_all {α} (p : α → Bool) (a b : List α) (h : ∀ x ∈ a, p x = true) :
    (a ++ b).dropWhile p = b.dropWhile p := by
  induction a with
  | nil => rfl
  | cons x xs ih =>
    simp [List.dropWhile, h x (by simp), ih (fun y hy => h y (by simp [hy]))]

private theorem takeWhile_dropWhile_nil {α} (p : α → Bool) (l : List α) : (l.dropWhile p).takeWhile p = [] := by
  induction l with
  | nil => rfl
  | cons x xs ih =>
    by_cases h : p x = true
    · simp [List.dropWhile, h, ih]
    · simp [List.dropWhile, List.takeWhile, h]

private theorem dropWhile_dropWhile {α} (p : α → Bool) (l : List α) : (l.dropWhile p).dropWhile p = l.dropWhile p := by
  induction l with
  | nil => rfl
  | cons x xs ih =>
    by_cases h : p x = true
    · simp [List.dropWhile, h, ih]
    · simp [List.dropWhile, h]

/-- `SecComponentSignature "OWASP_CRS/X`: the run up to the closing quote is what was written -/
theorem C14_signature_last_wins (v1 v2 l : Bytes) (h1 : VersionOk v1) :
    sub5 v2 (sub5 v1 l) = sub5 v2 l := by
  have hq : ∀ c ∈ v1, (c != '"') = true := by
    intro c hc
    have := verCh_ne (h1.2 c hc) (d := '"') (by decide)
    simpa using this
  unfold sub5
  cases hP : stripPrefix? p5 l with
  | none => simp only; rw [hP]
  | some rest =>
    simp only
    by_cases he : (rest.takeWhile (· != '"')).isEmpty = true
    · simp only [he, if_true]; rw [hP]; simp [he]
    · simp only [he]
      simp only [Bool.false_eq_true, if_false]
      rw [List.append_assoc, stripPrefix?_append]
      simp only
      rw [takeWhile_append_of_all _ _ _ hq, dropWhile_append_of_all _ _ _ hq]
      have hne : (v1 ++ List.takeWhile (fun x => x != '"') (List.dropWhile (fun x => x != '"') rest)).isEmpty = false := by
        cases hv : v1 with
        | nil => exact absurd hv h1.1
        | cons c cs => simp
      rw [hne]
      simp only [Bool.false_eq_true, if_false]
      rw [dropWhile_dropWhile]

/-- copyright line: a four-digit year is replaced by the next four-digit year, the rest of the line stays -/
theorem C14_year_last_wins (y1 y2 l : Bytes) (h1 : isYear4 y1 = true) :
    sub3 y2 (sub3 y1 l) = sub3 y2 l := by
  have hlen : y1.length = 4 := by
    simp only [isYear4, Bool.and_eq_true, beq_iff_eq] at h1; exact h1.1
  unfold sub3
  cases hP : stripPrefix? p3 l with
  | none => simp only; rw [hP]
  | some rest =>
    simp only
    by_cases hc : (isYear4 (rest.take 4) && yearTailOk (rest.drop 4)) = true
    · rw [if_pos hc, List.append_assoc, stripPrefix?_append]
      simp only
      have ht : (y1 ++ List.drop 4 rest).take 4 = y1 := by
        rw [List.take_append_of_le_length (by omega)]
        exact List.take_of_length_le (by omega)
      have hdr : (y1 ++ List.drop 4 rest).drop 4 = List.drop 4 rest := by
        rw [List.drop_append_of_le_length (by omega)]
        rw [List.drop_of_length_le (by omega)]
        rfl
      rw [ht, hdr]
      have hc2 : (isYear4 y1 && yearTailOk (rest.drop 4)) = true := by
        simp only [Bool.and_eq_true] at hc ⊢
        exact ⟨h1, hc.2⟩
      rw [if_pos hc2, if_pos hc]
    · rw [if_neg hc, hP]

/-! ### `ver:'OWASP_CRS/X'` on the fields between quotes -/

private theorem sub4Fields_false_prev (v p p' : Bytes) (fs : List Bytes) :
    sub4Fields v false p fs = sub4Fields v false p' fs := by
  cases fs with
  | nil => rfl
  | cons f fs => simp [sub4Fields]

theorem sub4Fields_last_wins (v1 v2 : Bytes) (h1 : v1 ≠ []) (a : Bool) (p : Bytes) (fs : List Bytes) :
    sub4Fields v2 a p (sub4Fields v1 a p fs) = sub4Fields v2 a p fs := by
  induction fs generalizing a p with
  | nil => rfl
  | cons f fs ih =>
    have hv : ∃ c cs, v1 = c :: cs := by
      cases v1 with
      | nil => exact absurd rfl h1
      | cons c cs => exact ⟨c, cs, rfl⟩
    obtain ⟨c1, cs1, hv1⟩ := hv
    rw [sub4Fields]
    split
    · rename_i c cs hsp
      split
      · rename_i hcond
        -- rewritten field
        rw [sub4Fields]
        rw [stripPrefix?_append, hv1]
        simp only
        rw [if_pos hcond]
        rw [sub4Fields, hsp]
        simp only
        rw [if_pos hcond]
        congr 1
        rw [sub4Fields_false_prev v2 (k4b ++ c1 :: cs1) f, ← hv1]
        exact ih false f
      · rename_i hcond
        rw [sub4Fields, hsp]
        simp only
        rw [if_neg hcond]
        conv => rhs; rw [sub4Fields, hsp]
        simp only
        rw [if_neg hcond]
        congr 1
        exact ih true f
    · rename_i hsp
      have hsp' : ∀ c cs, stripPrefix? k4b f ≠ some (c :: cs) := fun c cs h => hsp c cs h
      have e1 : ∀ v a p fs', sub4Fields v a p (f :: fs') = f :: sub4Fields v true f fs' := by
        intro v a p fs'
        rw [sub4Fields]
        split
        · rename_i c cs h; exact absurd h (hsp' c cs)
        · rfl
      rw [e1, e1]
      congr 1
      exact ih true f

private theorem sub4Fields_noQuote (v : Bytes) (hv : '\'' ∉ v) (a : Bool) (p : Bytes) (fs : List Bytes)
    (h : ∀ f ∈ fs, '\'' ∉ f) : ∀ f ∈ sub4Fields v a p fs, '\'' ∉ f := by
  induction fs generalizing a p with
  | nil => simp [sub4Fields]
  | cons f fs ih =>
    intro g hg
    rw [sub4Fields] at hg
    have hf := h f (by simp)
    have hfs : ∀ x ∈ fs, '\'' ∉ x := fun x hx => h x (by simp [hx])
    split at hg
    · split at hg
      · simp only [List.mem_cons] at hg
        rcases hg with rfl | hg
        · intro hm
          simp only [List.mem_append] at hm
          rcases hm with hm | hm
          · simp [k4b] at hm
          · exact hv hm
        · exact ih _ _ hfs g hg
      · simp only [List.mem_cons] at hg
        rcases hg with rfl | hg
        · exact hf
        · exact ih _ _ hfs g hg
    · simp only [List.mem_cons] at hg
      rcases hg with rfl | hg
      · exact hf
      · exact ih _ _ hfs g hg

/-- `ver:'OWASP_CRS/X'`, all occurrences on a line: the last invocation wins -/
theorem C14_secrule_ver_last_wins (v1 v2 l : Bytes) (h1 : VersionOk v1) :
    sub4 v2 (sub4 v1 l) = sub4 v2 l := by
  have hq : '\'' ∉ v1 := fun hm => verCh_ne (h1.2 _ hm) (d := '\'') (by decide) rfl
  unfold sub4
  cases hs : splitCh '\'' l with
  | nil => exact absurd hs (splitCh_ne_nil _ _)
  | cons f fs =>
    simp only
    have hfields := splitCh_fields_noSep '\'' l
    rw [hs] at hfields
    have hno : ∀ g ∈ f :: sub4Fields v1 true f fs, '\'' ∉ g := by
      intro g hg
      simp only [List.mem_cons] at hg
      rcases hg with rfl | hg
      · exact hfields _ (by simp)
      · exact sub4Fields_noQuote v1 hq _ _ _ (fun x hx => hfields x (by simp [hx])) g hg
    rw [splitCh_joinCh '\'' _ (by simp) hno]
    simp only
    rw [sub4Fields_last_wins v1 v2 h1.1]

/-- **`setvar:tx.crs_setup_version=NNN`, all occurrences on a line: the last invocation wins.** The first version must
    contain a digit (every version `validateSemver` accepts does); without one the first run deletes the number and
    the marker is gone (`C14_setup_version_needs_digit`). -/
theorem C14_setup_version_last_wins (v1 v2 l : Bytes) (h1 : ∃ c ∈ v1, isDigit c = true) :
    sub2 (digitsOf v2) (sub2 (digitsOf v1) l) = sub2 (digitsOf v2) l := by
  apply sub2_last_wins
  · intro c hc; exact (List.mem_filter.mp hc).2
  · obtain ⟨c, hc, hd⟩ := h1
    intro e
    have : c ∈ digitsOf v1 := List.mem_filter.mpr ⟨hc, hd⟩
    rw [e] at this; simp at this

/-- the hypothesis is met, and the conclusion is about a line that is rewritten twice -/
example : sub2 (digitsOf b!"4.10.0") (sub2 (digitsOf b!"4.9.0-rc1") b!"setvar:tx.crs_setup_version=330, setvar:tx=crs_setup_version=1\"")
    = b!"setvar:tx.crs_setup_version=4100, setvar:tx=crs_setup_version=4100\"" := by decide +kernel

/-- without a digit in the first version the law fails (the model and the code agree on this; the command line
    rejects such versions before `updateRules` runs) -/
theorem C14_setup_version_needs_digit :
    sub2 (digitsOf b!"4.1") (sub2 (digitsOf b!"x") b!"setvar:tx.crs_setup_version=330") ≠
      sub2 (digitsOf b!"4.1") b!"setvar:tx.crs_setup_version=330" := by decide +kernel

/-! ### files -/

/-- a line that can be written with `\n` and scanned back unchanged -/
def GoodLine' (l : Bytes) : Prop := '\n' ∉ l ∧ l.getLast? ≠ some '\r'

/-- **lifting a per-line law to files.** If, line by line, running with the second parameters after the
    first gives what the second parameters alone give, then the same holds for whole files —
    provided no line ends in two carriage returns (D22) and rewritten lines stay scannable. -/
theorem updateRules_last_wins_of_line (v1 y1 v2 y2 b : Bytes)
    (hline : ∀ l ∈ scanLines b, stepLine v2 y2 (stepLine v1 y1 l) = stepLine v2 y2 l)
    (hgood : ∀ l ∈ scanLines b, GoodLine' (stepLine v1 y1 l)) :
    updateRules v2 y2 (updateRules v1 y1 b) = updateRules v2 y2 b := by
  unfold updateRules
  rw [scanLines_unlines _ (fun l hl => by
        obtain ⟨l0, hl0, rfl⟩ := List.mem_map.mp hl; exact (hgood l0 hl0).1)
      (fun l hl => by
        obtain ⟨l0, hl0, rfl⟩ := List.mem_map.mp hl; exact (hgood l0 hl0).2)]
  rw [List.map_map]
  congr 1
  apply List.map_congr_left
  intro l hl
  exact hline l hl

/-- **frame**: a line that carries none of the marker characters is returned unchanged:
    no `#`/`S` at the start, no `'`, no `=`. -/
theorem C14_frame (v y l : Bytes) (h0 : l.head? ≠ some '#') (h1 : l.head? ≠ some 'S')
    (hq : '\'' ∉ l) (he : '=' ∉ l) : stepLine v y l = l := by
  have s1 : sub1 v l = l := by
    unfold sub1
    have a : stripPrefix? p1a l = none := by
      cases l with
      | nil => simp [p1a, stripPrefix?]
      | cons c cs =>
        have : c ≠ '#' := by simpa using h0
        simp [p1a, stripPrefix?, Ne.symm this]
    have b : stripPrefix? p1b l = none := by
      cases l with
      | nil => simp [p1b, stripPrefix?]
      | cons c cs =>
        have : c ≠ '#' := by simpa using h0
        simp [p1b, stripPrefix?, Ne.symm this]
    rw [a, b]
  have s2 : ∀ n, sub2 n l = l := by
    intro n
    unfold sub2
    rw [splitCh_noSep '=' l he]
    simp [sub2Fields, joinCh]
  have s3 : sub3 y l = l := by
    unfold sub3
    have a : stripPrefix? p3 l = none := by
      cases l with
      | nil => simp [p3, stripPrefix?]
      | cons c cs =>
        have : c ≠ '#' := by simpa using h0
        simp [p3, stripPrefix?, Ne.symm this]
    rw [a]
  have s4 : sub4 v l = l := by
    unfold sub4
    rw [splitCh_noSep '\'' l hq]
    simp [sub4Fields, joinCh]
  have s5 : sub5 v l = l := by
    unfold sub5
    have a : stripPrefix? p5 l = none := by
      cases l with
      | nil => simp [p5, stripPrefix?]
      | cons c cs =>
        have : c ≠ 'S' := by simpa using h1
        simp [p5, stripPrefix?, Ne.symm this]
    rw [a]
  unfold stepLine
  rw [s1, s2, s3, s4, s5]

end Crs.Props
