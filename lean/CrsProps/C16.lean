/-
  C16 — failures are loud: non-zero exit, no regex printed, no target file modified.

  Model: `Crs.Cli` single-target commands (`generateCmd`, `updateCmd`, `formatOne`, `renumberOne`) and the --all
  walks. Faults are values in the model (`Except Fault`): every way the code can fail to do what was asked — missing
  include, entry that does not compile, unknown processor, unbalanced markers, unknown stored name, unsupported flag,
  odd replacement list, rule / chain offset / rules file not found or ambiguous — is an `.error` of `generate`,
  `parseRuleId`, `rulesFileOf`, `updateRegex` or `formatFile`, and the theorems below say what an `.error` turns into.
  The correspondence check (K10) compares stdout, exit status and the whole tree of the real binary with the model
  under every injected fault class.
  Known finding D19: the --all walks are not atomic (`C16_updateAll_failure_prefix_D19` states what is left).
-/
import Crs.Cli
namespace Crs.Props
open Crs Crs.Cli Crs.Format

/-- **C16 (generate).** A failing generate prints nothing; a successful one prints exactly the regex (no newline).
    The tree is untouched either way. -/
theorem C16_generate_loud (E : Asm.Engine) (cfg : Asm.Config) (o1 o2 : Parser.Ord) (t : Tree) (arg : Bytes) :
    let r := generateCmd E cfg o1 o2 t arg
    r.tree = t ∧ (r.ok = false → r.stdout = []) ∧
    (r.ok = true → ∃ ra b re, Update.parseRuleId arg = .ok ra ∧ lookup (assemblyPath ra.fileName) t = some b ∧
        Asm.generate E (fsOf t) cfg o1 o2 b = .ok re ∧ r.stdout = re) := by
  simp only [generateCmd]
  split
  · simp
  · rename_i ra hra
    split
    · simp
    · rename_i b hb
      split
      · rename_i re hre
        refine ⟨rfl, by simp, fun _ => ⟨ra, b, re, hra, hb, ?_, rfl⟩⟩
        exact hre
      · simp

/-- **C16 (update).** A failing update leaves every file byte-identical and prints nothing; exit status 0 means the
    operand of the addressed rule was written. -/
theorem C16_update_loud (E : Asm.Engine) (cfg : Asm.Config) (o1 o2 : Parser.Ord) (t : Tree) (arg : Bytes) :
    let r := updateCmd E cfg o1 o2 t arg
    r.stdout = [] ∧ (r.ok = false → r.tree = t) ∧
    (r.ok = true → ∃ ra b re rp rc rc', Update.parseRuleId arg = .ok ra ∧ lookup (assemblyPath ra.fileName) t = some b ∧
        Asm.generate E (fsOf t) cfg o1 o2 b = .ok re ∧ rulesFileOf t ra.id = some rp ∧ lookup rp t = some rc ∧
        Update.updateRegex rc ra.id ra.chainOffset re = .ok rc' ∧ r.tree = setFile rp rc' t) := by
  simp only [updateCmd]
  split
  · simp
  · rename_i ra hra
    split
    · simp
    · rename_i b hb
      split
      · rename_i t' ht'
        refine ⟨rfl, by simp, fun _ => ?_⟩
        unfold updateRule at ht'
        simp only at ht'
        split at ht'
        · simp at ht'
        · rename_i re hre
          split at ht'
          · simp at ht'
          · rename_i rp hrp
            split at ht'
            · simp at ht'
            · rename_i rc hrc
              split at ht'
              · simp at ht'
              · rename_i rc' hrc'
                simp only [Except.ok.injEq] at ht'
                exact ⟨ra, b, re, rp, rc, rc', hra, hb, hre, hrp, hrc, hrc', ht'.symm⟩
      · simp

/-- **C16 (format, one file).** A file that cannot be formatted is left as it is and reported. -/
theorem C16_format_failure_keeps_file (check lint : Bool) (b b' : Bytes) (h : formatOne check lint b = (b', false)) : b' = b := by
  unfold formatOne at h
  split at h
  · simp only [Prod.mk.injEq] at h; exact h.1.symm
  · split at h
    · simp only [Prod.mk.injEq] at h; exact h.1.symm
    · simp at h

/-- **C16 (renumber-tests, one file).** Failure (check mode on a misnumbered file) leaves the file as it is. -/
theorem C16_renumber_failure_keeps_file (check : Bool) (id b b' : Bytes) (h : renumberOne check id b = (b', false)) : b' = b := by
  unfold renumberOne at h
  simp only at h
  split at h
  · simp at h
  · split at h
    · simp only [Prod.mk.injEq] at h; exact h.1.symm
    · simp at h

/-- **C16 (format --all reports every failure).** Exit status 0 of `format --all` means every target was written in
    its formatted form (or, with --check, already had it and passes the lint). -/
theorem C16_formatAll_ok (check : Bool) (lint : Bytes → Bool) (t : Tree) (h : (formatAll check lint t).ok = true) :
    ∀ pb ∈ t, isFormatTarget pb.1 = true → parseable pb.2 = true ∧ (formatOne check (lint pb.1) pb.2).2 = true := by
  induction t with
  | nil => simp
  | cons x rest ih =>
    obtain ⟨p, b⟩ := x
    simp only [formatAll] at h
    intro pb hpb htgt
    by_cases ht : isFormatTarget p = true
    · simp only [ht, if_true] at h
      by_cases hp : parseable b = true
      · simp only [hp, Bool.not_true, Bool.false_eq_true, if_false, Bool.and_eq_true] at h
        simp only [List.mem_cons] at hpb
        rcases hpb with rfl | hpb
        · exact ⟨hp, h.1⟩
        · exact ih h.2 pb hpb htgt
      · have hp' : parseable b = false := by simpa using hp
        simp [hp'] at h
    · have ht' : isFormatTarget p = false := by simpa using ht
      simp only [ht', Bool.false_eq_true, if_false] at h
      simp only [List.mem_cons] at hpb
      rcases hpb with rfl | hpb
      · rw [ht'] at htgt; exact absurd htgt (by simp)
      · exact ih h pb hpb htgt

/-- **D19 as a fact of the model.** When the second of two assembly files fails in `update --all`, the run reports
    failure and the tree is the one the FIRST update produced — not the original tree: loud, but not atomic.
    (That such runs exist with `t' ≠ t` is the executable witness of D19 in known_findings.jsonl, on which model and
    binary agree.) -/
theorem C16_updateAll_failure_prefix_D19 (E : Asm.Engine) (cfg : Asm.Config) (o1 o2 : Parser.Ord) (g g' : Globals) (t t' : Tree)
    (p1 b1 p2 b2 id1 id2 : Bytes) (k1 k2 : Nat) (e : Fault)
    (ht1 : isFormatTarget p1 = true) (hn1 : ruleOfFileName (baseName p1) = some (some (id1, k1)))
    (ht2 : isFormatTarget p2 = true) (hn2 : ruleOfFileName (baseName p2) = some (some (id2, k2)))
    (hu1 : updateRule E cfg o1 o2 g t b1 id1 k1 = (g', .ok t'))
    (hu2 : (updateRule E cfg o1 o2 g' t' b2 id2 k2).2 = .error e) :
    updateAll E cfg o1 o2 g t [(p1, b1), (p2, b2)] = ⟨t', false⟩ := by
  simp only [updateAll, ht1, ht2, hn1, hn2, if_true, hu1]
  cases hx : updateRule E cfg o1 o2 g' t' b2 id2 k2 with
  | mk gg r =>
    rw [hx] at hu2
    simp only at hu2
    subst hu2
    rfl

end Crs.Props
