import Crs.Update
namespace Crs.Props
theorem C16_placeholder : True := trivial
end Crs.Props
