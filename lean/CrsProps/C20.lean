/-
  C20 — self-update installs only a newer, checksum-verified release for this platform.

  Model: `Crs.Updater.decideUpdate`. The theorem is about the decision; the run against the fake release
  service ties the decision to the binary (which bytes end up in the executable, exit status).
-/
import Crs.Updater
namespace Crs.Props
open Crs Crs.Updater

private theorem newest_mem (cs : List (Version × Release × Asset)) (c : Version × Release × Asset)
    (h : newest cs = some c) : c ∈ cs := by
  induction cs generalizing c with
  | nil => simp [newest] at h
  | cons x xs ih =>
    simp only [newest] at h
    cases hn : newest xs with
    | none => rw [hn] at h; simp only [Option.some.injEq] at h; simp [← h]
    | some d =>
      rw [hn] at h
      simp only at h
      split at h
      · simp only [Option.some.injEq] at h; subst h; exact List.mem_cons_of_mem _ (ih d hn)
      · simp only [Option.some.injEq] at h; simp [← h]

private theorem verifiedBytes_some (sha256 : Bytes → Bytes) (lookup : ChecksumLookup) (a cs : Asset) (bytes : Bytes)
    (h : verifiedBytes sha256 lookup a cs = some bytes) :
    a.content = bytes ∧ a.available = true ∧ cs.available = true ∧ lookup cs.content a.name = some (sha256 bytes) := by
  unfold verifiedBytes at h
  split at h
  · rename_i hav
    simp only [Bool.and_eq_true] at hav
    split at h
    · rename_i digest hl
      split at h
      · rename_i hd
        simp only [Option.some.injEq] at h
        have : digest = sha256 a.content := by simpa using hd
        exact ⟨h, hav.1, hav.2, by rw [hl, this, h]⟩
      · simp at h
    · simp at h
  · simp at h

private theorem candidates_mem (isPlatform : Bytes → Bool) (rels : List Release) (v : Version) (r : Release) (a : Asset)
    (h : (v, r, a) ∈ candidates isPlatform rels) :
    r ∈ rels ∧ r.draft = false ∧ r.prerelease = false ∧ r.version = some v ∧ platformAsset isPlatform r = some a := by
  simp only [candidates, List.mem_filterMap] at h
  obtain ⟨r0, hr0, hsome⟩ := h
  split at hsome
  · simp at hsome
  · rename_i hflags
    have hflags' : r0.draft = false ∧ r0.prerelease = false := by simpa using hflags
    split at hsome
    · rename_i v0 a0 hv0 ha0
      simp only [Option.some.injEq, Prod.mk.injEq] at hsome
      obtain ⟨rfl, rfl, rfl⟩ := hsome
      exact ⟨hr0, hflags'.1, hflags'.2, hv0, ha0⟩
    · simp at hsome

/-- **C20 (install only if …).** Whenever self-update replaces the executable, the installed bytes are the
    content of the platform asset `a` of a release `r` of the catalogue such that: the catalogue could be
    listed; `r` is neither draft nor pre-release and carries a version `v`; the running version is older
    than `v` (a build without comparable version counts as older); `r` has the checksum file, both downloads
    succeeded, and the checksum file lists exactly the SHA-256 of the installed bytes under the asset's name. -/
theorem C20_install_only_if (sha256 : Bytes → Bytes) (lookup : ChecksumLookup) (isPlatform : Bytes → Bool)
    (listOk : Bool) (rels : List Release) (running : Option Version) (bytes : Bytes)
    (h : decideUpdate sha256 lookup isPlatform listOk rels running = .install bytes) :
    listOk = true ∧
    ∃ v r a cs, r ∈ rels ∧ r.draft = false ∧ r.prerelease = false ∧ r.version = some v ∧
      platformAsset isPlatform r = some a ∧ a.content = bytes ∧ a.available = true ∧
      (∀ rv, running = some rv → rv.lt v = true) ∧
      checksumAsset r = some cs ∧ cs.available = true ∧
      lookup cs.content a.name = some (sha256 bytes) := by
  unfold decideUpdate at h
  split at h
  · simp at h
  · rename_i hl
    refine ⟨by simpa using hl, ?_⟩
    split at h
    · simp at h
    · rename_i v r a hnew
      obtain ⟨hr, hd, hp, hv, ha⟩ := candidates_mem _ _ _ _ _ (newest_mem _ _ hnew)
      split at h
      · simp at h
      · rename_i cs hcs
        split at h
        · simp at h
        · rename_i hnewer
          split at h
          · rename_i b hvb
            simp only [Decision.install.injEq] at h
            subst h
            obtain ⟨h1, h2, h3, h4⟩ := verifiedBytes_some _ _ _ _ _ hvb
            refine ⟨v, r, a, cs, hr, hd, hp, hv, ha, h1, h2, ?_, hcs, h3, h4⟩
            intro rv hrv
            subst hrv
            simpa [isNewer] using hnewer
          · simp at h

/-- **C20 (else unchanged).** In every other situation the decision is "up to date" or "fail": the executable
    keeps its bytes (the model has no other way to produce new bytes). -/
theorem C20_else_unchanged (sha256 : Bytes → Bytes) (lookup : ChecksumLookup) (isPlatform : Bytes → Bool)
    (listOk : Bool) (rels : List Release) (running : Option Version) :
    (∃ bytes, decideUpdate sha256 lookup isPlatform listOk rels running = .install bytes) ∨
    decideUpdate sha256 lookup isPlatform listOk rels running = .upToDate ∨
    decideUpdate sha256 lookup isPlatform listOk rels running = .fail := by
  cases h : decideUpdate sha256 lookup isPlatform listOk rels running with
  | install b => exact Or.inl ⟨b, rfl⟩
  | upToDate => exact Or.inr (Or.inl rfl)
  | fail => exact Or.inr (Or.inr rfl)

/-- a checksum entry that does not match is never installed -/
theorem C20_mismatch_not_installed (sha256 : Bytes → Bytes) (lookup : ChecksumLookup) (isPlatform : Bytes → Bool)
    (rels : List Release) (running : Option Version)
    (hbad : ∀ r ∈ rels, ∀ a cs, platformAsset isPlatform r = some a → checksumAsset r = some cs →
      lookup cs.content a.name ≠ some (sha256 a.content)) :
    ∀ bytes, decideUpdate sha256 lookup isPlatform true rels running ≠ .install bytes := by
  intro bytes h
  obtain ⟨_, v, r, a, cs, hr, _, _, _, ha, hab, _, _, hcs, _, hl⟩ := C20_install_only_if _ _ _ _ _ _ _ h
  exact hbad r hr a cs ha hcs (by rw [hab]; exact hl)

end Crs.Props
