import Crs.Bytes
namespace Crs.Props
theorem C20_placeholder : True := trivial
end Crs.Props
