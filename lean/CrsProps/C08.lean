/-
  C08 — processing with --all equals processing each file on its own, in any order.

  Model: `Crs.Cli` (formatAll, renumberAll, copyrightAll, runFile / updateRule / updateAll).
  * format (and the other two line tools): --all IS the per-file function applied to every target
    (`C08_format_each`), hence independent of the traversal order (`C08_format_perm`).
  * update/compare: the regex computed for a file does not depend on the process-wide state earlier files left
    behind (`C08_run_ignores_globals`: a new context and a stack reset per file), and what earlier files wrote —
    a rules file — is not among the inputs of later files (`C08_update_inputs_untouched`), so each file's regex in
    an --all run is the regex of a single run on the original tree (`C08_update_regex_same`).
  NOT proved: that the rules-file splices of different rules commute (needed for "any order" of update at the level of
  rules-file bytes; follows from C11_frame when the rules address different lines) — checked by the oracle
  (--all vs single invocations in random orders on the real binary).
-/
import Crs.Cli
namespace Crs.Props
open Crs Crs.Cli Crs.Format

/-! ### the line tools: --all is a map -/

def formatEach (check : Bool) (lint : Bytes → Bool) (pb : Bytes × Bytes) : Bytes × Bytes :=
  if isFormatTarget pb.1 then (pb.1, (formatOne check (lint pb.1) pb.2).1) else pb

/-- **C08 (format).** When no file makes the parser panic, `--all` leaves in every file exactly what formatting that
    file alone leaves in it. -/
theorem C08_format_each (check : Bool) (lint : Bytes → Bool) (t : Tree)
    (hp : ∀ pb ∈ t, isFormatTarget pb.1 = true → parseable pb.2 = true) :
    (formatAll check lint t).tree = t.map (formatEach check lint) := by
  induction t with
  | nil => rfl
  | cons pb rest ih =>
    obtain ⟨p, b⟩ := pb
    have ih' := ih (fun x hx => hp x (by simp [hx]))
    simp only [formatAll, List.map_cons, formatEach]
    by_cases ht : isFormatTarget p = true
    · have := hp (p, b) (by simp) ht
      simp only at this
      simp only [ht, if_true, this, Bool.not_true, Bool.false_eq_true, if_false, ih']
    · have ht' : isFormatTarget p = false := by simpa using ht
      simp only [ht', Bool.false_eq_true, if_false, ih']

/-- **C08 (format, traversal order).** Visiting the files in another order gives the same files. -/
theorem C08_format_perm (check : Bool) (lint : Bytes → Bool) (t t' : Tree) (h : t.Perm t')
    (hp : ∀ pb ∈ t, isFormatTarget pb.1 = true → parseable pb.2 = true) :
    (formatAll check lint t).tree.Perm (formatAll check lint t').tree := by
  rw [C08_format_each check lint t hp, C08_format_each check lint t' (fun pb hpb => hp pb (h.mem_iff.mpr hpb))]
  exact h.map _

def renumberEach (check : Bool) (pb : Bytes × Bytes) : Bytes × Bytes :=
  match renumberId? pb.1 with
  | some id => (pb.1, (renumberOne check id pb.2).1)
  | none => pb

theorem C08_renumber_each (check : Bool) (t : Tree) : (renumberAll check t).tree = t.map (renumberEach check) := by
  induction t with
  | nil => rfl
  | cons pb rest ih =>
    obtain ⟨p, b⟩ := pb
    simp only [renumberAll, List.map_cons, renumberEach]
    cases h : renumberId? p <;> simp only [ih]

theorem C08_renumber_perm (check : Bool) (t t' : Tree) (h : t.Perm t') :
    (renumberAll check t).tree.Perm (renumberAll check t').tree := by
  rw [C08_renumber_each, C08_renumber_each]; exact h.map _

def copyrightEach (v y : Bytes) (pb : Bytes × Bytes) : Bytes × Bytes :=
  if isCopyrightTarget pb.1 then (pb.1, Crs.Copyright.updateRules v y pb.2) else pb

theorem C08_copyright_each (v y : Bytes) (t : Tree) : (copyrightAll v y t).tree = t.map (copyrightEach v y) := by
  induction t with
  | nil => rfl
  | cons pb rest ih =>
    obtain ⟨p, b⟩ := pb
    simp only [copyrightAll, List.map_cons, copyrightEach]
    split <;> simp only [ih]

/-! ### update: nothing computed for one file reaches another -/

/-- **C08 (no process-wide leak).** The regex of a run does not depend on the processor stack and stash earlier runs
    left behind: it is `generate` on the file's bytes. -/
theorem C08_run_ignores_globals (E : Asm.Engine) (cfg : Asm.Config) (o1 o2 : Parser.Ord) (g g' : Globals) (fs : Parser.Fs) (input : Bytes) :
    (runFile E cfg o1 o2 g fs input).2 = (runFile E cfg o1 o2 g' fs input).2 ∧
    (runFile E cfg o1 o2 g fs input).2 = Asm.generate E fs cfg o1 o2 input := ⟨rfl, rfl⟩

theorem setFile_lookup_other (p q c : Bytes) (t : Tree) (h : q ≠ p) : lookup q (setFile p c t) = lookup q t := by
  induction t with
  | nil => rfl
  | cons x rest ih =>
    obtain ⟨r, b⟩ := x
    simp only [setFile]
    by_cases hr : r = p
    · subst hr
      have : (r == r) = true := by simp
      simp only [this, if_true, lookup]
      have : (r == q) = false := by simp; exact fun e => h e.symm
      simp [this]
    · have : (r == p) = false := by simpa using hr
      simp only [this, Bool.false_eq_true, if_false, lookup, ih]

theorem setFile_paths (p c : Bytes) (t : Tree) : (setFile p c t).map Prod.fst = t.map Prod.fst := by
  induction t with
  | nil => rfl
  | cons x rest ih =>
    obtain ⟨r, b⟩ := x
    simp only [setFile]
    split
    · rename_i h; simp only [List.map_cons]
    · simp only [List.map_cons, ih]

theorem setFile_filter_other (f : Bytes → Bool) (p c : Bytes) (t : Tree) (hp : f p = false) :
    (setFile p c t).filter (fun pb => f pb.1) = t.filter (fun pb => f pb.1) := by
  induction t with
  | nil => rfl
  | cons x rest ih =>
    obtain ⟨r, b⟩ := x
    simp only [setFile]
    by_cases hr : (r == p) = true
    · have e : r = p := by simpa using hr
      subst e
      simp only [hr, if_true, List.filter_cons, hp, Bool.false_eq_true, if_false]
    · have hr' : (r == p) = false := by simpa using hr
      simp only [hr', Bool.false_eq_true, if_false, List.filter_cons, ih]

theorem rulesFileOf_prefix (t : Tree) (id rp : Bytes) (h : rulesFileOf t id = some rp) : hasPrefix b!"rules/" rp = true := by
  unfold rulesFileOf at h
  simp only at h
  split at h
  · rename_i pb hf
    simp only [Option.some.injEq] at h
    subst h
    have : pb ∈ List.filter (fun pb => hasPrefix b!"rules/" pb.1 && !(pb.1.drop 6).contains '/' && Update.contains (['-'] ++ id.take 3 ++ ['-']) (pb.1.drop 6)) t := by
      rw [hf]; simp
    have := (List.mem_filter.mp this).2
    simp only [Bool.and_eq_true] at this
    exact this.1.1
  · simp at h

theorem rules_not_assembly (rp : Bytes) (h : hasPrefix b!"rules/" rp = true) :
    hasPrefix b!"regex-assembly/include/" rp = false ∧ hasPrefix b!"regex-assembly/exclude/" rp = false ∧ isFormatTarget rp = false := by
  cases rp with
  | nil => simp [hasPrefix, List.isPrefixOf] at h
  | cons c cs =>
    have hc : c = 'r' := by simp [hasPrefix, List.isPrefixOf] at h; exact h.1.symm ▸ rfl
    subst hc
    cases cs with
    | nil => simp [hasPrefix, List.isPrefixOf] at h
    | cons d ds =>
      have hd : d = 'u' := by simp [hasPrefix, List.isPrefixOf] at h; exact h.1.symm ▸ rfl
      subst hd
      simp [hasPrefix, List.isPrefixOf, isFormatTarget, inDir]

/-- **C08 (what one file's update writes is no input of another's).** A successful update leaves the include
    directories, every assembly file and the set of paths as they were: only the rules file changed. -/
theorem C08_update_inputs_untouched (E : Asm.Engine) (cfg : Asm.Config) (o1 o2 : Parser.Ord) (g : Globals) (t t' : Tree)
    (input id : Bytes) (k : Nat) (h : (updateRule E cfg o1 o2 g t input id k).2 = .ok t') :
    fsOf t' = fsOf t ∧ t'.map Prod.fst = t.map Prod.fst ∧
    t'.filter (fun pb => isFormatTarget pb.1) = t.filter (fun pb => isFormatTarget pb.1) := by
  unfold updateRule at h
  simp only at h
  split at h
  · simp at h
  · split at h
    · simp at h
    · rename_i rp hrp
      split at h
      · simp at h
      · split at h
        · simp at h
        · simp only [Except.ok.injEq] at h
          subst h
          obtain ⟨n1, n2, n3⟩ := rules_not_assembly rp (rulesFileOf_prefix t id rp hrp)
          refine ⟨?_, setFile_paths _ _ _, setFile_filter_other isFormatTarget rp _ t n3⟩
          unfold fsOf
          have e1 := setFile_filter_other (fun p => hasPrefix b!"regex-assembly/include/" p && !(p.drop 23).contains '/') rp ‹_› t (by simp [n1])
          have e2 := setFile_filter_other (fun p => hasPrefix b!"regex-assembly/exclude/" p && !(p.drop 23).contains '/') rp ‹_› t (by simp [n2])
          rw [e1, e2]

/-- **C08 (same regex as alone).** After any successful update of another rule, the regex computed for a file is the one
    a single invocation on the original tree computes. -/
theorem C08_update_regex_same (E : Asm.Engine) (cfg : Asm.Config) (o1 o2 : Parser.Ord) (g g1 g2 : Globals) (t t' : Tree)
    (input id : Bytes) (k : Nat) (h : (updateRule E cfg o1 o2 g t input id k).2 = .ok t') (other : Bytes) :
    (runFile E cfg o1 o2 g1 (fsOf t') other).2 = (runFile E cfg o1 o2 g2 (fsOf t) other).2 := by
  rw [(C08_update_inputs_untouched E cfg o1 o2 g t t' input id k h).1]
  rfl

end Crs.Props
