/-
  C08 — processing with --all equals processing each file on its own, in any order.

  Model: `Crs.Cli` (formatAll, renumberAll, copyrightAll, runFile / updateRule / updateAll).
  * format (and the other two line tools): --all IS the per-file function applied to every target
    (`C08_format_each`), hence independent of the traversal order (`C08_format_perm`).
  * update/compare: the regex computed for a file does not depend on the process-wide state earlier files left
    behind (`C08_run_ignores_globals`: a new context and a stack reset per file), and what earlier files wrote —
    a rules file — is not among the inputs of later files (`C08_update_inputs_untouched`), so each file's regex in
    an --all run is the regex of a single run on the original tree (`C08_update_regex_same`).
  * the rules-file splices of two rules that address different lines commute (`C08_update_splices_commute`): in
    either order both updates succeed and leave the same bytes, so the order of an --all walk does not show in the
    rules file either. The oracle (--all vs single invocations in random orders on the real binary) samples the same.
-/
import Crs.Cli
import CrsProofs.Update
import CrsProps.C12
namespace Crs.Props
open Crs Crs.Cli Crs.Format Crs.Update

/-! ### the line tools: --all is a map -/

def formatEach (check : Bool) (lint : Bytes → Bool) (pb : Bytes × Bytes) : Bytes × Bytes :=
  if isFormatTarget pb.1 then (pb.1, (formatOne check (lint pb.1) pb.2).1) else pb

/-- **C08 (format).** When no file makes the parser panic, `--all` leaves in every file exactly what formatting that
    file alone leaves in it. -/
theorem C08_format_each (check : Bool) (lint : Bytes → Bool) (t : Tree)
    (hp : ∀ pb ∈ t, isFormatTarget pb.1 = true → parseable pb.2 = true) :
    (formatAll check lint t).tree = t.map (formatEach check lint) := by
  induction t with
  | nil => rfl
  | cons pb rest ih =>
    obtain ⟨p, b⟩ := pb
    have ih' := ih (fun x hx => hp x (by simp [hx]))
    simp only [formatAll, List.map_cons, formatEach]
    by_cases ht : isFormatTarget p = true
    · have := hp (p, b) (by simp) ht
      simp only at this
      simp only [ht, if_true, this, Bool.not_true, Bool.false_eq_true, if_false, ih']
    · have ht' : isFormatTarget p = false := by simpa using ht
      simp only [ht', Bool.false_eq_true, if_false, ih']

/-- **C08 (format, traversal order).** Visiting the files in another order gives the same files. -/
theorem C08_format_perm (check : Bool) (lint : Bytes → Bool) (t t' : Tree) (h : t.Perm t')
    (hp : ∀ pb ∈ t, isFormatTarget pb.1 = true → parseable pb.2 = true) :
    (formatAll check lint t).tree.Perm (formatAll check lint t').tree := by
  rw [C08_format_each check lint t hp, C08_format_each check lint t' (fun pb hpb => hp pb (h.mem_iff.mpr hpb))]
  exact h.map _

def renumberEach (check : Bool) (pb : Bytes × Bytes) : Bytes × Bytes :=
  match renumberId? pb.1 with
  | some id => (pb.1, (renumberOne check id pb.2).1)
  | none => pb

theorem C08_renumber_each (check : Bool) (t : Tree) : (renumberAll check t).tree = t.map (renumberEach check) := by
  induction t with
  | nil => rfl
  | cons pb rest ih =>
    obtain ⟨p, b⟩ := pb
    simp only [renumberAll, List.map_cons, renumberEach]
    cases h : renumberId? p <;> simp only [ih]

theorem C08_renumber_perm (check : Bool) (t t' : Tree) (h : t.Perm t') :
    (renumberAll check t).tree.Perm (renumberAll check t').tree := by
  rw [C08_renumber_each, C08_renumber_each]; exact h.map _

def copyrightEach (v y : Bytes) (pb : Bytes × Bytes) : Bytes × Bytes :=
  if isCopyrightTarget pb.1 then (pb.1, Crs.Copyright.updateRules v y pb.2) else pb

theorem C08_copyright_each (v y : Bytes) (t : Tree) : (copyrightAll v y t).tree = t.map (copyrightEach v y) := by
  induction t with
  | nil => rfl
  | cons pb rest ih =>
    obtain ⟨p, b⟩ := pb
    simp only [copyrightAll, List.map_cons, copyrightEach]
    split <;> simp only [ih]

/-! ### update: nothing computed for one file reaches another -/

/-- **C08 (no process-wide leak).** The regex of a run does not depend on the processor stack and stash earlier runs
    left behind: it is `generate` on the file's bytes. -/
theorem C08_run_ignores_globals (E : Asm.Engine) (cfg : Asm.Config) (o1 o2 : Parser.Ord) (g g' : Globals) (fs : Parser.Fs) (input : Bytes) :
    (runFile E cfg o1 o2 g fs input).2 = (runFile E cfg o1 o2 g' fs input).2 ∧
    (runFile E cfg o1 o2 g fs input).2 = Asm.generate E fs cfg o1 o2 input := ⟨rfl, rfl⟩

theorem setFile_lookup_other (p q c : Bytes) (t : Tree) (h : q ≠ p) : lookup q (setFile p c t) = lookup q t := by
  induction t with
  | nil => rfl
  | cons x rest ih =>
    obtain ⟨r, b⟩ := x
    simp only [setFile]
    by_cases hr : r = p
    · subst hr
      have : (r == r) = true := by simp
      simp only [this, if_true, lookup]
      have : (r == q) = false := by simp; exact fun e => h e.symm
      simp [this]
    · have : (r == p) = false := by simpa using hr
      simp only [this, Bool.false_eq_true, if_false, lookup, ih]

theorem setFile_paths (p c : Bytes) (t : Tree) : (setFile p c t).map Prod.fst = t.map Prod.fst := by
  induction t with
  | nil => rfl
  | cons x rest ih =>
    obtain ⟨r, b⟩ := x
    simp only [setFile]
    split
    · rename_i h; simp only [List.map_cons]
    · simp only [List.map_cons, ih]

theorem setFile_filter_other (f : Bytes → Bool) (p c : Bytes) (t : Tree) (hp : f p = false) :
    (setFile p c t).filter (fun pb => f pb.1) = t.filter (fun pb => f pb.1) := by
  induction t with
  | nil => rfl
  | cons x rest ih =>
    obtain ⟨r, b⟩ := x
    simp only [setFile]
    by_cases hr : (r == p) = true
    · have e : r = p := by simpa using hr
      subst e
      simp only [hr, if_true, List.filter_cons, hp, Bool.false_eq_true, if_false]
    · have hr' : (r == p) = false := by simpa using hr
      simp only [hr', Bool.false_eq_true, if_false, List.filter_cons, ih]

theorem rulesFileOf_prefix (t : Tree) (id rp : Bytes) (h : rulesFileOf t id = some rp) : hasPrefix b!"rules/" rp = true := by
  unfold rulesFileOf at h
  simp only at h
  split at h
  · rename_i pb hf
    simp only [Option.some.injEq] at h
    subst h
    have : pb ∈ List.filter (fun pb => hasPrefix b!"rules/" pb.1 && !(pb.1.drop 6).contains '/' && Update.contains (['-'] ++ id.take 3 ++ ['-']) (pb.1.drop 6)) t := by
      rw [hf]; simp
    have := (List.mem_filter.mp this).2
    simp only [Bool.and_eq_true] at this
    exact this.1.1
  · simp at h

theorem rules_not_assembly (rp : Bytes) (h : hasPrefix b!"rules/" rp = true) :
    hasPrefix b!"regex-assembly/include/" rp = false ∧ hasPrefix b!"regex-assembly/exclude/" rp = false ∧ isFormatTarget rp = false := by
  cases rp with
  | nil => simp [hasPrefix, List.isPrefixOf] at h
  | cons c cs =>
    have hc : c = 'r' := by simp [hasPrefix, List.isPrefixOf] at h; exact h.1.symm ▸ rfl
    subst hc
    cases cs with
    | nil => simp [hasPrefix, List.isPrefixOf] at h
    | cons d ds =>
      have hd : d = 'u' := by simp [hasPrefix, List.isPrefixOf] at h; exact h.1.symm ▸ rfl
      subst hd
      simp [hasPrefix, List.isPrefixOf, isFormatTarget, inDir]

/-- **C08 (what one file's update writes is no input of another's).** A successful update leaves the include
    directories, every assembly file and the set of paths as they were: only the rules file changed. -/
theorem C08_update_inputs_untouched (E : Asm.Engine) (cfg : Asm.Config) (o1 o2 : Parser.Ord) (g : Globals) (t t' : Tree)
    (input id : Bytes) (k : Nat) (h : (updateRule E cfg o1 o2 g t input id k).2 = .ok t') :
    fsOf t' = fsOf t ∧ t'.map Prod.fst = t.map Prod.fst ∧
    t'.filter (fun pb => isFormatTarget pb.1) = t.filter (fun pb => isFormatTarget pb.1) := by
  unfold updateRule at h
  simp only at h
  split at h
  · simp at h
  · split at h
    · simp at h
    · rename_i rp hrp
      split at h
      · simp at h
      · split at h
        · simp at h
        · simp only [Except.ok.injEq] at h
          subst h
          obtain ⟨n1, n2, n3⟩ := rules_not_assembly rp (rulesFileOf_prefix t id rp hrp)
          refine ⟨?_, setFile_paths _ _ _, setFile_filter_other isFormatTarget rp _ t n3⟩
          unfold fsOf
          have e1 := setFile_filter_other (fun p => hasPrefix b!"regex-assembly/include/" p && !(p.drop 23).contains '/') rp ‹_› t (by simp [n1])
          have e2 := setFile_filter_other (fun p => hasPrefix b!"regex-assembly/exclude/" p && !(p.drop 23).contains '/') rp ‹_› t (by simp [n2])
          rw [e1, e2]

/-- **C08 (same regex as alone).** After any successful update of another rule, the regex computed for a file is the one
    a single invocation on the original tree computes. -/
theorem C08_update_regex_same (E : Asm.Engine) (cfg : Asm.Config) (o1 o2 : Parser.Ord) (g g1 g2 : Globals) (t t' : Tree)
    (input id : Bytes) (k : Nat) (h : (updateRule E cfg o1 o2 g t input id k).2 = .ok t') (other : Bytes) :
    (runFile E cfg o1 o2 g1 (fsOf t') other).2 = (runFile E cfg o1 o2 g2 (fsOf t) other).2 := by
  rw [(C08_update_inputs_untouched E cfg o1 o2 g t t' input id k h).1]
  rfl

/-! ### update: the splices of different rules commute -/

theorem updateRegex_anatomy (c id : Bytes) (k : Nat) (r c' : Bytes) (h : updateRegex c id k r = .ok c') :
    ∃ i line pre old post, targetIndex id k 0 (splitNl c) = .ok i ∧ (splitNl c)[i]? = some line ∧
      splitOperand line = some (pre, old, post) ∧ c' = joinNl (setAt (splitNl c) i (pre ++ r ++ post)) := by
  unfold updateRegex at h
  simp only at h
  split at h
  · simp at h
  · rename_i i hi
    split at h
    · simp at h
    · rename_i line hline
      split at h
      · simp at h
      · rename_i pre old post hop
        simp only [Except.ok.injEq] at h
        exact ⟨i, line, pre, old, post, hi, hline, hop, h.symm⟩

theorem updateRegex_of_anatomy (c id : Bytes) (k : Nat) (r : Bytes) (i : Nat) (line pre old post : Bytes)
    (hi : targetIndex id k 0 (splitNl c) = .ok i) (hline : (splitNl c)[i]? = some line)
    (hop : splitOperand line = some (pre, old, post)) :
    updateRegex c id k r = .ok (joinNl (setAt (splitNl c) i (pre ++ r ++ post))) := by
  unfold updateRegex
  simp only [hi, hline, hop]

/-- the lines of the file after a splice -/
theorem splitNl_after_splice (c : Bytes) (i : Nat) (line pre old post r : Bytes) (hline : (splitNl c)[i]? = some line)
    (hop : splitOperand line = some (pre, old, post)) (hr : '\n' ∉ r) :
    splitNl (joinNl (setAt (splitNl c) i (pre ++ r ++ post))) = setAt (splitNl c) i (pre ++ r ++ post) := by
  obtain ⟨hl, _, _⟩ := splitOperand_shape line pre old post hop
  have hmem : (pre ++ old ++ post) ∈ splitNl c := by rw [← hl]; exact List.mem_of_getElem? hline
  have hno := splitNl_lines_noNl c _ hmem
  apply splitNl_joinNl
  · intro e
    have := setAt_length (splitNl c) i (pre ++ r ++ post)
    rw [e] at this
    exact splitNl_ne_nil c (List.length_eq_zero_iff.mp this.symm)
  · intro l hl'
    rcases setAt_mem _ _ _ _ hl' with rfl | hl'
    · intro hm
      simp only [List.mem_append] at hm hno
      rcases hm with (hm | hm) | hm
      · exact hno (Or.inl (Or.inl hm))
      · exact hr hm
      · exact hno (Or.inr hm)
    · exact splitNl_lines_noNl c l hl'

theorem setAt_comm (ls : List Bytes) (i j : Nat) (x y : Bytes) (h : i ≠ j) :
    setAt (setAt ls i x) j y = setAt (setAt ls j y) i x := by
  induction ls generalizing i j with
  | nil => simp [setAt]
  | cons l ls ih =>
    cases i with
    | zero =>
      cases j with
      | zero => exact absurd rfl h
      | succ j => simp [setAt]
    | succ i =>
      cases j with
      | zero => simp [setAt]
      | succ j => simp only [setAt]; rw [ih i j (fun e => h (by rw [e]))]

/-- **C08 (update, any order).** Two updates that succeed on the same rules file and address different lines can be
    made one after the other in either order: both orders succeed and leave the same bytes. (`KeepsClass`: the rewritten
    operand lines still carry — or still do not carry — the keyword `SecRule`, as in C12.) -/
theorem C08_update_splices_commute (c id1 id2 : Bytes) (k1 k2 : Nat) (r1 r2 c1 c2 : Bytes)
    (h1 : updateRegex c id1 k1 r1 = .ok c1) (h2 : updateRegex c id2 k2 r2 = .ok c2)
    (hr1 : '\n' ∉ r1) (hr2 : '\n' ∉ r2)
    (hdiff : targetIndex id1 k1 0 (splitNl c) ≠ targetIndex id2 k2 0 (splitNl c))
    (hk1 : ∀ (i : Nat) (pre old post : Bytes), (splitNl c)[i]? = some (pre ++ old ++ post) → KeepsClass (pre ++ old ++ post) (pre ++ r1 ++ post))
    (hk2 : ∀ (i : Nat) (pre old post : Bytes), (splitNl c)[i]? = some (pre ++ old ++ post) → KeepsClass (pre ++ old ++ post) (pre ++ r2 ++ post)) :
    ∃ c', updateRegex c1 id2 k2 r2 = .ok c' ∧ updateRegex c2 id1 k1 r1 = .ok c' := by
  obtain ⟨i1, line1, pre1, old1, post1, hi1, hl1, hop1, e1⟩ := updateRegex_anatomy c id1 k1 r1 c1 h1
  obtain ⟨i2, line2, pre2, old2, post2, hi2, hl2, hop2, e2⟩ := updateRegex_anatomy c id2 k2 r2 c2 h2
  have hne : i1 ≠ i2 := by
    intro e; apply hdiff; rw [hi1, hi2, e]
  obtain ⟨hs1, _, _⟩ := splitOperand_shape line1 pre1 old1 post1 hop1
  obtain ⟨hs2, _, _⟩ := splitOperand_shape line2 pre2 old2 post2 hop2
  have hl1' : (splitNl c)[i1]? = some (pre1 ++ old1 ++ post1) := by rw [hl1, hs1]
  have hl2' : (splitNl c)[i2]? = some (pre2 ++ old2 ++ post2) := by rw [hl2, hs2]
  -- the lines after each single update
  have L1 : splitNl c1 = setAt (splitNl c) i1 (pre1 ++ r1 ++ post1) := by
    rw [e1]; exact splitNl_after_splice c i1 line1 pre1 old1 post1 r1 hl1 hop1 hr1
  have L2 : splitNl c2 = setAt (splitNl c) i2 (pre2 ++ r2 ++ post2) := by
    rw [e2]; exact splitNl_after_splice c i2 line2 pre2 old2 post2 r2 hl2 hop2 hr2
  -- the lookups do not move
  have T2 : targetIndex id2 k2 0 (splitNl c1) = .ok i2 := by
    rw [L1, targetIndex_setAt id2 k2 0 (splitNl c) i1 _ _ hl1' (isIdLine_operand_line id2 line1 pre1 old1 post1 r1 hop1)
      (hk1 i1 pre1 old1 post1 hl1'), hi2]
  have T1 : targetIndex id1 k1 0 (splitNl c2) = .ok i1 := by
    rw [L2, targetIndex_setAt id1 k1 0 (splitNl c) i2 _ _ hl2' (isIdLine_operand_line id1 line2 pre2 old2 post2 r2 hop2)
      (hk2 i2 pre2 old2 post2 hl2'), hi1]
  have G2 : (splitNl c1)[i2]? = some line2 := by rw [L1, setAt_getElem?_other _ _ _ _ (Ne.symm hne), hl2]
  have G1 : (splitNl c2)[i1]? = some line1 := by rw [L2, setAt_getElem?_other _ _ _ _ hne, hl1]
  refine ⟨joinNl (setAt (setAt (splitNl c) i1 (pre1 ++ r1 ++ post1)) i2 (pre2 ++ r2 ++ post2)), ?_, ?_⟩
  · rw [updateRegex_of_anatomy c1 id2 k2 r2 i2 line2 pre2 old2 post2 T2 G2 hop2, L1]
  · rw [updateRegex_of_anatomy c2 id1 k1 r1 i1 line1 pre1 old1 post1 T1 G1 hop1, L2, setAt_comm _ _ _ _ _ hne]

/-- non-vacuity: the two rules of a small rules file, updated in both orders -/
example :
    let c : Bytes := "SecRule ARGS \"@rx a\" \\\n    \"id:942100\"\nSecRule ARGS \"!@rx old\" \\\n    \"id:942110,\\\n    phase:2\"\n".toList
    (updateRegex c b!"942100" 0 b!"x|y").bind (fun c1 => updateRegex c1 b!"942110" 0 b!"SecRule id:942100") =
      (updateRegex c b!"942110" 0 b!"SecRule id:942100").bind (fun c2 => updateRegex c2 b!"942100" 0 b!"x|y") ∧
    ((updateRegex c b!"942100" 0 b!"x|y").bind (fun c1 => updateRegex c1 b!"942110" 0 b!"SecRule id:942100")).toOption.isSome = true := by
  decide +kernel

end Crs.Props
