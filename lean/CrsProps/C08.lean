import Crs.Update
namespace Crs.Props
theorem C08_placeholder : True := trivial
end Crs.Props
