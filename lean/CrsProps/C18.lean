/-
  C18 — rule arguments, file names and chain offsets resolve consistently.

  Model: `Crs.Update.parseRuleId` (cmd/regex.go: parseRuleId; regex/definitions.go: RuleIdFileNameRegex;
  strconv.ParseUint(_, 10, 8)). Root resolution and the equality of stdin and file input are
  checked on the binary (correspondence row K10); the grammar is proved here.
-/
import Crs.Update
import CrsProofs.Lines
import Crs.Cli
import Crs.Root
namespace Crs.Props
open Crs Crs.Update

/-- the accepted shapes, written out: six digits, optionally `-chain` + digits, optionally `.ra` -/
def argOf (id : Bytes) (chain : Option Bytes) (ext : Bool) : Bytes :=
  id ++ ((match chain with | some ds => chainKw ++ ds | none => []) ++ (if ext then raExt else []))

def IsId (id : Bytes) : Prop := id.length = 6 ∧ id.all isDigit = true
def IsDigits (ds : Bytes) : Prop := ds ≠ [] ∧ ds.all isDigit = true

private theorem take6_append (id rest : Bytes) (h : id.length = 6) : (id ++ rest).take 6 = id := by
  rw [List.take_append_of_le_length (by omega)]; exact List.take_of_length_le (by omega)

private theorem drop6_append (id rest : Bytes) (h : id.length = 6) : (id ++ rest).drop 6 = rest := by
  rw [List.drop_append_of_le_length (by omega), List.drop_of_length_le (by omega)]; rfl

private theorem takeWhile_digits_append (ds rest : Bytes) (hd : ds.all isDigit = true)
    (hr : ∀ c, rest.head? = some c → isDigit c = false) :
    (ds ++ rest).takeWhile isDigit = ds ∧ (ds ++ rest).dropWhile isDigit = rest := by
  induction ds with
  | nil =>
    cases rest with
    | nil => simp
    | cons c cs =>
      have := hr c rfl
      simp [List.takeWhile, List.dropWhile, this]
  | cons d ds ih =>
    simp only [List.all_cons, Bool.and_eq_true] at hd
    obtain ⟨ih1, ih2⟩ := ih hd.2
    simp [List.takeWhile, List.dropWhile, hd.1, ih1, ih2]

private theorem hasSuffix_append_self (s x : Bytes) : hasSuffix s (x ++ s) = true := by
  simp [hasSuffix, List.reverse_append]

/-- a text whose last character is a digit does not end in `.ra` -/
private theorem not_hasSuffix_ra_of_digit_last (x : Bytes) (c : Char) (h : x.getLast? = some c) (hc : isDigit c = true) :
    hasSuffix raExt x = false := by
  obtain ⟨ys, rfl⟩ := List.getLast?_eq_some_iff.mp h
  have : c ≠ 'a' := by intro e; subst e; exact absurd hc (by decide)
  simp [hasSuffix, raExt, List.reverse_append, List.isPrefixOf, this]
  intro e; exact absurd e.symm this

private theorem all_getLast {x : Bytes} {c : Char} (h : x.getLast? = some c) (ha : x.all isDigit = true) : isDigit c = true := by
  have := List.mem_of_getLast? h
  exact List.all_eq_true.mp ha c this

private theorem exists_last {x : Bytes} (h : x ≠ []) : ∃ c, x.getLast? = some c := by
  cases hx : x.getLast? with
  | none => exact absurd (List.getLast?_eq_none_iff.mp hx) h
  | some c => exact ⟨c, rfl⟩

/-- the chain part is recognised: digits after `-chain`, up to the first non-digit -/
theorem splitChain_chain (ds rest : Bytes) (hds : IsDigits ds) (hr : ∀ c, rest.head? = some c → isDigit c = false) :
    splitChain (chainKw ++ (ds ++ rest)) = (some ds, rest) := by
  unfold splitChain
  rw [stripPrefix?_append]
  obtain ⟨t1, t2⟩ := takeWhile_digits_append ds rest hds.2 hr
  have : ds.isEmpty = false := by cases ds with | nil => exact absurd rfl hds.1 | cons _ _ => rfl
  simp only [t1, t2, this, Bool.false_eq_true, if_false]

theorem splitChain_none_nil : splitChain [] = (none, []) := by decide
theorem splitChain_none_ra : splitChain raExt = (none, raExt) := by decide

theorem fileNameFor_noext (x : Bytes) (c : Char) (h : x.getLast? = some c) (hc : isDigit c = true) :
    fileNameFor x = x ++ raExt := by
  unfold fileNameFor; rw [not_hasSuffix_ra_of_digit_last x c h hc]; simp

theorem fileNameFor_ext (x : Bytes) : fileNameFor (x ++ raExt) = x ++ raExt := by
  unfold fileNameFor; rw [hasSuffix_append_self]; simp

/-- **C18 (accepted arguments).** Every argument of the documented shape with an offset of at most 255
    resolves to exactly: rule id = the six digits, file name = the argument with `.ra` (added when absent,
    the offset in its own spelling), chain offset = the decimal value (0 when absent). -/
theorem C18_accepts (id : Bytes) (hid : IsId id) (ext : Bool) :
    parseRuleId (argOf id none ext) = .ok ⟨id, id ++ raExt, 0⟩ ∧
    ∀ ds, IsDigits ds → digitsVal ds ≤ 255 →
      parseRuleId (argOf id (some ds) ext) = .ok ⟨id, id ++ (chainKw ++ ds) ++ raExt, digitsVal ds⟩ := by
  obtain ⟨hlen, hdig⟩ := hid
  have hidc : (!(id.length == 6 && id.all isDigit)) = false := by simp [hlen, hdig]
  have hidne : id ≠ [] := by intro e; simp [e] at hlen
  obtain ⟨ci, hci⟩ := exists_last hidne
  constructor
  · cases ext
    · simp only [argOf, Bool.false_eq_true, if_false, List.append_nil]
      unfold parseRuleId
      rw [List.take_of_length_le (by omega), List.drop_of_length_le (by omega), hidc, splitChain_none_nil]
      simp only [Bool.false_eq_true, if_false]
      rw [fileNameFor_noext id ci hci (all_getLast hci hdig)]
      simp
    · simp only [argOf, if_true, List.nil_append]
      unfold parseRuleId
      rw [take6_append id _ hlen, drop6_append id _ hlen, hidc, splitChain_none_ra, fileNameFor_ext]
      simp
  · intro ds hds hval
    have hle : ¬ (digitsVal ds > 255) := by omega
    obtain ⟨cd, hcd⟩ := exists_last hds.1
    cases ext
    · simp only [argOf, Bool.false_eq_true, if_false, List.append_nil]
      unfold parseRuleId
      rw [take6_append id _ hlen, drop6_append id _ hlen, hidc]
      have := splitChain_chain ds [] hds (by simp)
      rw [List.append_nil] at this
      rw [this]
      simp only [Bool.false_eq_true, if_false, hle]
      have hl : (id ++ (chainKw ++ ds)).getLast? = some cd := by
        rw [List.getLast?_append, List.getLast?_append, hcd]; rfl
      rw [fileNameFor_noext _ cd hl (all_getLast hcd hds.2)]
      simp
    · simp only [argOf, if_true]
      unfold parseRuleId
      rw [take6_append id _ hlen, drop6_append id _ hlen, hidc]
      rw [List.append_assoc, splitChain_chain ds raExt hds (by simp [raExt, isDigit])]
      simp only [Bool.false_eq_true, if_false, hle]
      have : id ++ (chainKw ++ (ds ++ raExt)) = (id ++ (chainKw ++ ds)) ++ raExt := by simp [List.append_assoc]
      rw [this, fileNameFor_ext]
      simp

/-- **C18 (no wrap-around).** An offset above 255 is rejected, whatever its length, with or without `.ra`. -/
theorem C18_rejects_large_offset (id : Bytes) (hid : IsId id) (ds : Bytes) (hds : IsDigits ds) (ext : Bool)
    (hbig : digitsVal ds > 255) : parseRuleId (argOf id (some ds) ext) = .error .diag := by
  obtain ⟨hlen, hdig⟩ := hid
  have hidc : (!(id.length == 6 && id.all isDigit)) = false := by simp [hlen, hdig]
  cases ext
  · simp only [argOf, Bool.false_eq_true, if_false, List.append_nil]
    unfold parseRuleId
    rw [take6_append id _ hlen, drop6_append id _ hlen, hidc]
    have := splitChain_chain ds [] hds (by simp)
    rw [List.append_nil] at this
    rw [this]
    simp [hbig]
  · simp only [argOf, if_true]
    unfold parseRuleId
    rw [take6_append id _ hlen, drop6_append id _ hlen, hidc]
    rw [List.append_assoc, splitChain_chain ds raExt hds (by simp [raExt, isDigit])]
    simp [hbig]

/-- **C18 (nothing else is accepted).** Whatever is accepted: the id is the first six characters, all of
    them digits; the offset is at most 255 (no wrap-around, no truncation); the file name is the argument
    itself, with `.ra` appended exactly when it does not end in it already. -/
theorem C18_sound (a : Bytes) (r : RuleArg) (h : parseRuleId a = .ok r) :
    r.id = a.take 6 ∧ r.id.length = 6 ∧ r.id.all isDigit = true ∧ r.chainOffset ≤ 255 ∧
    r.fileName = fileNameFor a := by
  unfold parseRuleId at h
  split at h
  · simp at h
  · rename_i hidc
    have hidc' : (a.take 6).length = 6 ∧ (a.take 6).all isDigit = true := by
      simpa using hidc
    split at h
    split at h
    · simp at h
    · split at h
      · simp only [Except.ok.injEq] at h
        subst h
        exact ⟨rfl, hidc'.1, hidc'.2, by simp, rfl⟩
      · split at h
        · simp at h
        · rename_i hle
          simp only [Except.ok.injEq] at h
          subst h
          exact ⟨rfl, hidc'.1, hidc'.2, by simp only; omega, rfl⟩

/-- what follows the six digits of an accepted argument is nothing, `.ra`, or a chain part followed by nothing or `.ra` -/
theorem C18_sound_tail (a : Bytes) (r : RuleArg) (h : parseRuleId a = .ok r) :
    (splitChain (a.drop 6)).2 = [] ∨ (splitChain (a.drop 6)).2 = raExt := by
  unfold parseRuleId at h
  split at h
  · simp at h
  · split at h
    rename_i offs rest' heq
    split at h
    · simp at h
    · rename_i hend
      rw [heq]
      simp only [Bool.not_eq_true, Bool.not_eq_false', Bool.or_eq_true, List.isEmpty_iff, beq_iff_eq] at hend
      simpa using hend

/-- non-vacuity and the boundary cases the property names -/
example :
    parseRuleId "942100-chain255.ra".toList = .ok ⟨"942100".toList, "942100-chain255.ra".toList, 255⟩ ∧
    parseRuleId "942100-chain256".toList = .error .diag ∧
    parseRuleId "942100-chain007".toList = .ok ⟨"942100".toList, "942100-chain007.ra".toList, 7⟩ ∧
    parseRuleId "94210".toList = .error .diag ∧ parseRuleId "9421000".toList = .error .diag ∧
    parseRuleId "942100-chain".toList = .error .diag ∧ parseRuleId "942100.raa".toList = .error .diag ∧
    parseRuleId "942100-chain99999999999999999999".toList = .error .diag := by
  decide

/-- **C18 (`--all` reads file names with the same grammar).** Whatever name the walk of `update --all` /
    `compare --all` meets: it is taken for a rule file exactly when it is an accepted argument, with the same id and
    offset; a name whose offset is above 255 ends the walk with a failure; every other name is skipped. -/
theorem C18_all_same_grammar (name : Bytes) :
    (∀ id k, Cli.ruleOfFileName name = some (some (id, k)) →
        ∃ r, parseRuleId name = .ok r ∧ r.id = id ∧ r.chainOffset = k ∧ k ≤ 255) ∧
    (Cli.ruleOfFileName name = some none → parseRuleId name = .error .diag) ∧
    (Cli.ruleOfFileName name = none → parseRuleId name = .error .diag) := by
  unfold Cli.ruleOfFileName parseRuleId
  by_cases h6 : (!((name.take 6).length == 6 && (name.take 6).all isDigit)) = true
  · simp only [h6, if_true]
    exact ⟨fun _ _ h => by simp at h, fun h => by simp at h, fun _ => trivial⟩
  · have h6' : (!((name.take 6).length == 6 && (name.take 6).all isDigit)) = false := by simpa using h6
    simp only [h6', Bool.false_eq_true, if_false]
    cases hs : splitChain (name.drop 6) with
    | mk offs rest' =>
      simp only
      by_cases hr : (!(rest'.isEmpty || rest' == raExt)) = true
      · simp only [hr, if_true]
        exact ⟨fun _ _ h => by simp at h, fun h => by simp at h, fun _ => trivial⟩
      · have hr' : (!(rest'.isEmpty || rest' == raExt)) = false := by simpa using hr
        simp only [hr', Bool.false_eq_true, if_false]
        cases offs with
        | none =>
          simp only
          refine ⟨?_, fun h => by simp at h, fun h => by simp at h⟩
          intro id k h
          simp only [Option.some.injEq, Prod.mk.injEq] at h
          obtain ⟨rfl, rfl⟩ := h
          exact ⟨_, rfl, rfl, rfl, by omega⟩
        | some ds =>
          simp only
          by_cases hb : digitsVal ds > 255
          · simp only [hb, if_true]
            exact ⟨fun _ _ h => by simp at h, fun _ => trivial, fun h => by simp at h⟩
          · simp only [hb, if_false]
            refine ⟨?_, fun h => by simp at h, fun h => by simp at h⟩
            intro id k h
            simp only [Option.some.injEq, Prod.mk.injEq] at h
            obtain ⟨rfl, rfl⟩ := h
            exact ⟨_, rfl, rfl, rfl, by omega⟩

example : Cli.ruleOfFileName b!"942100-chain256.ra" = some none ∧ Cli.ruleOfFileName b!"942100-chain255.ra" = some (some (b!"942100", 255))
    ∧ Cli.ruleOfFileName b!"942100-yaml" = none := by decide

/-! ### root resolution (`findRootDirectory`) -/

open Crs.Root in
/-- **C18 (root).** The root a command works in is the NEAREST directory among the start directory and its ancestors
    that holds `regex-assembly` (`q <:+ p`: `q` is `p` or an ancestor of `p`, components innermost first), the
    file-system root itself excepted (`q ≠ []`: the loop never tests `/`). -/
theorem C18_root_is_nearest (has : Dir → Bool) (p q : Dir) :
    findRoot has p = some q ↔
      (q ≠ [] ∧ q <:+ p ∧ has q = true ∧ ∀ q', q' <:+ p → q.length < q'.length → has q' = false) := by
  induction p with
  | nil =>
    simp only [findRoot]
    constructor
    · intro h; simp at h
    · intro ⟨hne, hs, _, _⟩
      exact absurd (List.suffix_nil.mp hs) hne
  | cons c up ih =>
    simp only [findRoot]
    by_cases hc : has (c :: up) = true
    · simp only [hc, if_true, Option.some.injEq]
      constructor
      · intro h; subst h
        refine ⟨by simp, List.suffix_refl _, hc, ?_⟩
        intro q' hq' hl
        have := hq'.length_le
        omega
      · intro ⟨_, hs, _, hfar⟩
        rcases List.suffix_cons_iff.mp hs with h | h
        · exact h.symm
        · -- q is a proper ancestor: the start directory itself is nearer and holds regex-assembly
          have h1 := hfar (c :: up) (List.suffix_refl _) (by have := h.length_le; simp; omega)
          rw [hc] at h1; exact Bool.noConfusion h1
    · have hc' : has (c :: up) = false := by simpa using hc
      simp only [hc', Bool.false_eq_true, if_false]
      rw [ih]
      constructor
      · intro ⟨hne, hs, hh, hfar⟩
        refine ⟨hne, hs.trans (List.suffix_cons c up), hh, ?_⟩
        intro q' hq' hl
        rcases List.suffix_cons_iff.mp hq' with h | h
        · rw [h]; exact hc'
        · exact hfar q' h hl
      · intro ⟨hne, hs, hh, hfar⟩
        rcases List.suffix_cons_iff.mp hs with h | h
        · rw [h, hc'] at hh; exact Bool.noConfusion hh
        · exact ⟨hne, h, hh, fun q' hq' hl => hfar q' (hq'.trans (List.suffix_cons c up)) hl⟩

open Crs.Root in
/-- … and resolution fails exactly when no directory from the start directory upwards (below `/`) holds one -/
theorem C18_root_none_iff (has : Dir → Bool) (p : Dir) :
    findRoot has p = none ↔ ∀ q, q ≠ [] → q <:+ p → has q = false := by
  induction p with
  | nil =>
    simp only [findRoot, true_iff]
    intro q hne hs
    exact absurd (List.suffix_nil.mp hs) hne
  | cons c up ih =>
    simp only [findRoot]
    by_cases hc : has (c :: up) = true
    · simp only [hc, if_true]
      constructor
      · intro h; simp at h
      · intro h
        have := h (c :: up) (by simp) (List.suffix_refl _)
        rw [hc] at this; exact Bool.noConfusion this
    · have hc' : has (c :: up) = false := by simpa using hc
      simp only [hc', Bool.false_eq_true, if_false]
      rw [ih]
      constructor
      · intro h q hne hs
        rcases List.suffix_cons_iff.mp hs with e | e
        · rw [e]; exact hc'
        · exact h q hne e
      · intro h q hne hs
        exact h q hne (hs.trans (List.suffix_cons c up))

open Crs.Root in
/-- the start directory itself wins over every ancestor (an inner root shadows the outer one) -/
theorem C18_root_self_first (has : Dir → Bool) (c : Bytes) (up : Dir) (h : has (c :: up) = true) :
    findRoot has (c :: up) = some (c :: up) := by
  simp [findRoot, h]

open Crs.Root in
example : findRoot (fun d => d == [b!"crs", b!"outer"] || d == [b!"inner", b!"x", b!"crs", b!"outer"])
      [b!"er", b!"deep", b!"inner", b!"x", b!"crs", b!"outer"] = some [b!"inner", b!"x", b!"crs", b!"outer"]
    ∧ findRoot (fun d => d == [b!"crs", b!"outer"]) [b!"rules", b!"crs", b!"outer"] = some [b!"crs", b!"outer"]
    ∧ findRoot (fun _ => false) [b!"rules", b!"crs"] = none := by decide

end Crs.Props
