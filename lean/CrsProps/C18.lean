import Crs.Update
namespace Crs.Props
theorem C18_placeholder : True := trivial
end Crs.Props
