/-
  C15 — inspecting commands never write; rewriting commands touch only their targets.

  Model: `Crs.Cli` (which files of a tree the --all walks select, what is written to them). The tree holds the
  regular files below the resolved CRS root; nothing outside the root can be named by the modelled operations.
  The correspondence check (row K10) compares the tree the model predicts with the tree the real binary leaves
  behind, file by file, on generated CRS trees with decoys; the snapshot oracle additionally watches everything
  outside the root.
-/
import Crs.Cli
namespace Crs.Props
open Crs Crs.Cli Crs.Format

/-! ### format -/

/-- no file is created, deleted, renamed or reordered -/
theorem C15_format_paths (check : Bool) (lint : Bytes → Bool) (t : Tree) :
    (formatAll check lint t).tree.map Prod.fst = t.map Prod.fst := by
  induction t with
  | nil => rfl
  | cons pb rest ih =>
    obtain ⟨p, b⟩ := pb
    simp only [formatAll]
    split
    · split
      · rfl
      · simp only [List.map_cons, ih]
    · simp only [List.map_cons, ih]

/-- every file that is not an `.ra` file below regex-assembly is byte-identical afterwards -/
theorem C15_format_frame (check : Bool) (lint : Bytes → Bool) (t : Tree) :
    (formatAll check lint t).tree.filter (fun pb => !isFormatTarget pb.1) = t.filter (fun pb => !isFormatTarget pb.1) := by
  induction t with
  | nil => rfl
  | cons pb rest ih =>
    obtain ⟨p, b⟩ := pb
    simp only [formatAll]
    by_cases ht : isFormatTarget p = true
    · simp only [ht, if_true]
      split
      · rfl
      · simp only [List.filter_cons, ht, Bool.not_true, Bool.false_eq_true, if_false, ih]
    · have ht' : isFormatTarget p = false := by simpa using ht
      simp only [ht', Bool.false_eq_true, if_false, List.filter_cons, Bool.not_false, if_true, ih]

/-- `--check` writes nothing at all -/
theorem C15_format_check_writes_nothing (lint : Bytes → Bool) (t : Tree) : (formatAll true lint t).tree = t := by
  induction t with
  | nil => rfl
  | cons pb rest ih =>
    obtain ⟨p, b⟩ := pb
    simp only [formatAll]
    split
    · split
      · rfl
      · have : (formatOne true (lint p) b).1 = b := by
          unfold formatOne; split <;> simp
        simp only [this, ih]
    · simp only [ih]

/-! ### renumber-tests -/

theorem C15_renumber_paths (check : Bool) (t : Tree) : (renumberAll check t).tree.map Prod.fst = t.map Prod.fst := by
  induction t with
  | nil => rfl
  | cons pb rest ih =>
    obtain ⟨p, b⟩ := pb
    simp only [renumberAll]
    split <;> simp only [List.map_cons, ih]

/-- every file that is not `NNNNNN.yaml|.yml` below tests/regression/tests is byte-identical afterwards -/
theorem C15_renumber_frame (check : Bool) (t : Tree) :
    (renumberAll check t).tree.filter (fun pb => (renumberId? pb.1).isNone) = t.filter (fun pb => (renumberId? pb.1).isNone) := by
  induction t with
  | nil => rfl
  | cons pb rest ih =>
    obtain ⟨p, b⟩ := pb
    simp only [renumberAll]
    cases h : renumberId? p with
    | some id => simp only [List.filter_cons, h, Option.isNone_some, Bool.false_eq_true, if_false, ih]
    | none => simp only [List.filter_cons, h, Option.isNone_none, if_true, ih]

theorem C15_renumber_check_writes_nothing (t : Tree) : (renumberAll true t).tree = t := by
  induction t with
  | nil => rfl
  | cons pb rest ih =>
    obtain ⟨p, b⟩ := pb
    simp only [renumberAll]
    cases h : renumberId? p with
    | some id =>
      have : (renumberOne true id b).1 = b := by
        unfold renumberOne; simp only; split <;> simp
      simp only [this, ih]
    | none => simp only [ih]

/-! ### update-copyright -/

theorem C15_copyright_paths (v y : Bytes) (t : Tree) : (copyrightAll v y t).tree.map Prod.fst = t.map Prod.fst := by
  induction t with
  | nil => rfl
  | cons pb rest ih =>
    obtain ⟨p, b⟩ := pb
    simp only [copyrightAll]
    split <;> simp only [List.map_cons, ih]

/-- every file whose name does not end in `.conf` or `.example` is byte-identical afterwards -/
theorem C15_copyright_frame (v y : Bytes) (t : Tree) :
    (copyrightAll v y t).tree.filter (fun pb => !isCopyrightTarget pb.1) = t.filter (fun pb => !isCopyrightTarget pb.1) := by
  induction t with
  | nil => rfl
  | cons pb rest ih =>
    obtain ⟨p, b⟩ := pb
    simp only [copyrightAll]
    by_cases ht : isCopyrightTarget p = true
    · simp only [ht, if_true, List.filter_cons, Bool.not_true, Bool.false_eq_true, if_false, ih]
    · have ht' : isCopyrightTarget p = false := by simpa using ht
      simp only [ht', Bool.false_eq_true, if_false, List.filter_cons, Bool.not_false, if_true, ih]

/-! ### inspecting commands -/

/-- generate, compare, version, completion have no write operation in the model -/
theorem C15_inspect (t : Tree) : inspect t = t := rfl

/-! ### the target predicates on the decoys of the generated trees (non-vacuity of the frames) -/

example : isFormatTarget "regex-assembly/942100.ra".toList = true ∧ isFormatTarget "regex-assembly/include/words.ra".toList = true
    ∧ isFormatTarget "regex-assembly/942100.ra.bak".toList = false ∧ isFormatTarget "regex-assembly/notes.txt".toList = false
    ∧ isFormatTarget "rules/x.ra".toList = false ∧ isFormatTarget "regex-assemblyx/942100.ra".toList = false := by decide +kernel

example : renumberId? "tests/regression/tests/REQUEST-920-X/920100.yaml".toList = some "920100".toList
    ∧ renumberId? "tests/regression/tests/REQUEST-920-X/920100.yml".toList = some "920100".toList
    ∧ renumberId? "tests/regression/tests/REQUEST-920-X/920999".toList = none
    ∧ renumberId? "tests/regression/tests/REQUEST-920-X/9209990.yaml".toList = none
    ∧ renumberId? "tests/regression/tests/REQUEST-920-X/920998.yaml.orig".toList = none
    ∧ renumberId? "tests/regression/920100.yaml".toList = none
    ∧ renumberId? "docs/920100.yaml".toList = none := by decide +kernel

example : isCopyrightTarget "rules/REQUEST-942-X.conf".toList = true ∧ isCopyrightTarget "crs-setup.conf.example".toList = true
    ∧ isCopyrightTarget "util/example.conf.disabled".toList = false ∧ isCopyrightTarget "docs/conf.txt".toList = false
    ∧ isCopyrightTarget "rules/restricted-files.data".toList = false := by decide +kernel

end Crs.Props
