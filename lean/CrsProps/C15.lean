import Crs.Update
namespace Crs.Props
theorem C15_placeholder : True := trivial
end Crs.Props
