import Crs.Parser
namespace Crs.Props
theorem C05_placeholder : True := trivial
end Crs.Props
