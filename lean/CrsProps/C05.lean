/-
  C05 — including a file is the same as typing its lines in place.

  Model: `Crs.Parser.parseLines` (include branch), `parseFile`, `wrapInclude` (parser.go: parseFile,
  mergePrefixesSuffixes; include_except_builder.go: buildIncludeString).
-/
import Crs.Parser
import CrsProofs.Lines
import CrsProofs.NestedInclude
namespace Crs.Props
open Crs Crs.Pat Crs.Parser

/-- a line that is no directive of the parser: blank, comment, or a regular entry -/
def PlainLine (line : Bytes) : Prop :=
  let t := trimLeftSpTab line
  isBlank t = true ∨ comment? t = true ∨
    (definition? t = none ∧ include? t = none ∧ includeExcept? t = none ∧ flags? t = none ∧ prefix? t = none ∧ suffix? t = none)

/-- what plain lines contribute: every regular line, left-trimmed, with `\n` -/
def plainOut : List Bytes → Bytes
  | [] => []
  | l :: ls =>
    let t := trimLeftSpTab l
    (if isBlank t || comment? t then [] else t ++ ['\n']) ++ plainOut ls

/-- typing plain lines: they are appended to the text, nothing else of the parser state changes -/
theorem parseLines_plain (fs : Fs) (o1 o2 : Ord) (fuel : Nat) (st : PState) (ls rest : List Bytes)
    (h : ∀ l ∈ ls, PlainLine l) :
    parseLines fs o1 o2 fuel st (ls ++ rest) = parseLines fs o1 o2 fuel { st with out := st.out ++ plainOut ls } rest := by
  induction ls generalizing st with
  | nil => simp [plainOut]
  | cons l ls ih =>
    have hl := h l (by simp)
    have hrest : ∀ x ∈ ls, PlainLine x := fun x hx => h x (by simp [hx])
    simp only [List.cons_append, parseLines, plainOut]
    unfold PlainLine at hl
    simp only at hl
    by_cases hb : isBlank (trimLeftSpTab l) = true
    · simp only [hb, if_true, Bool.true_or, List.nil_append]
      exact ih st hrest
    · by_cases hc : comment? (trimLeftSpTab l) = true
      · simp only [hb, hc, if_true, Bool.or_true, Bool.false_eq_true, if_false, List.nil_append]
        exact ih st hrest
      · have hreg := hl.resolve_left hb |>.resolve_left hc
        obtain ⟨h1, h2, h3, h4, h5, h6⟩ := hreg
        simp only [hb, hc, Bool.false_eq_true, if_false, h1, h2, h3, h4, h5, h6, Bool.or_self]
        rw [ih _ hrest]
        simp [List.append_assoc]

/-- **C05 (plain include).** `##!> include F` for a file of plain lines (entries, comments, blank lines, any
    indentation), found in the include or exclude directory, parses exactly like the lines of `F` typed at that
    position — for every parser state before and every continuation after it. -/
theorem C05_plain_include (fs : Fs) (o1 o2 : Ord) (fuel : Nat) (st : PState) (line : Bytes) (name contents : Bytes)
    (rest : List Bytes)
    (hnb : isBlank (trimLeftSpTab line) = false) (hnc : comment? (trimLeftSpTab line) = false)
    (hnd : definition? (trimLeftSpTab line) = none)
    (hinc : include? (trimLeftSpTab line) = some (name, []))
    (hfile : fs.find name = some contents)
    (hplain : ∀ l ∈ scanLines contents, PlainLine l) :
    parseLines fs o1 o2 (fuel + 1) st (line :: rest) = parseLines fs o1 o2 (fuel + 1) st (scanLines contents ++ rest) := by
  rw [parseLines_plain fs o1 o2 (fuel + 1) st (scanLines contents) rest hplain]
  simp only [parseLines, hnb, hnc, hnd, hinc, Bool.false_eq_true, if_false]
  have hbp : buildPairs [] = some [] := by decide
  simp only [hbp, parseFile, hfile, parse]
  have hp := parseLines_plain fs o1 o2 fuel { vars := [] } (scanLines contents) [] hplain
  simp only [List.append_nil] at hp
  rw [hp]
  simp [parseLines, wrapInclude, replaceSuffixes, expandDefinitions]

/-- **C05 (nested includes, any depth).** Let the included file and every file it includes (to depth `d`, within the
    parser's bound) consist of entries, comments, blank lines and further plain includes. Then `##!> include F` parses
    exactly like the recursively expanded lines typed at that position: the state afterwards is the state before with
    `expandAt fs d F` — the files' entries, in order, indentation stripped — appended to the text, for every parser
    state and continuation. Definitions, flags, prefixes and suffixes are untouched. -/
theorem C05_nested_include (fs : Fs) (o1 o2 : Ord) (fuel d : Nat) (hd : d ≤ fuel) (st : PState) (line name text : Bytes)
    (rest : List Bytes)
    (hnb : isBlank (trimLeftSpTab line) = false) (hnc : comment? (trimLeftSpTab line) = false)
    (hnd : definition? (trimLeftSpTab line) = none)
    (hinc : include? (trimLeftSpTab line) = some (name, []))
    (hexp : expandAt fs d name = some text) :
    parseLines fs o1 o2 fuel st (line :: rest) = parseLines fs o1 o2 fuel { st with out := st.out ++ text } rest := by
  have h1 : expandWith (expandAt fs d) [line] = some text := by
    simp [expandWith, hnb, hnc, hnd, hinc, hexp]
  have := parseLines_expand fs o1 o2 d fuel hd [line] text h1 st rest
  simpa using this

/-- non-vacuity: a file including a file including a word list expands to all entries in order -/
def nestedFs : Fs := { inc := [("outer.ra".toList, "a\n##!> include mid\nz\n".toList), ("mid.ra".toList, "  b\n##! c\n##!> include inner\n".toList), ("inner.ra".toList, "c\nd\n".toList)] }
example : expandAt nestedFs 3 "outer".toList = some "a\nb\nc\nd\nz\n".toList := by decide +kernel

/-- **C05 (flags rejected).** An include file whose parse ends with a non-empty flag set is an error, not a merge. -/
theorem C05_flags_rejected (fs : Fs) (o1 o2 : Ord) (fuel : Nat) (name contents : Bytes) (defs : Vars) (stF : PState)
    (hfile : fs.find name = some contents) (hparse : parse fs o1 o2 fuel defs contents = .ok stF) (hfl : stF.flags ≠ []) :
    parseFile fs o1 o2 fuel name defs = .error .diag := by
  simp only [parseFile, hfile, hparse]
  have : stF.flags.isEmpty = false := by cases h : stF.flags with | nil => exact absurd h hfl | cons _ _ => rfl
  simp [this]

/-- **C05 (scoped prefixes/suffixes).** The text an include file with prefixes and/or suffixes contributes is one
    local assemble block: `##!> assemble`, each prefix followed by a concatenation marker, the file's own entries,
    a marker and each suffix followed by a marker, `##!<` — so they bind only the file's own entries. Without
    prefixes and suffixes the entries are contributed bare (no block). -/
theorem C05_scoped_affixes (p : PState) :
    wrapInclude p =
      if p.prefixes.isEmpty && p.suffixes.isEmpty then p.out
      else b!"##!> assemble\n" ++ (p.prefixes.map (· ++ b!"\n##!=>\n")).flatten ++ p.out ++
        (if p.suffixes.isEmpty then [] else b!"##!=>\n") ++ (p.suffixes.map (· ++ b!"\n##!=>\n")).flatten ++ b!"##!<\n" := rfl

/-- **C05 (definitions do not leak).** After an include line the including file's definitions, flags, prefixes and
    suffixes are what they were: only text is contributed. -/
theorem C05_no_leak (fs : Fs) (o1 o2 : Ord) (fuel : Nat) (st st' : PState) (line name repl : Bytes)
    (hnb : isBlank (trimLeftSpTab line) = false) (hnc : comment? (trimLeftSpTab line) = false)
    (hnd : definition? (trimLeftSpTab line) = none)
    (hinc : include? (trimLeftSpTab line) = some (name, repl))
    (h : parseLines fs o1 o2 fuel st [line] = .ok st') :
    st'.vars = st.vars ∧ st'.flags = st.flags ∧ st'.prefixes = st.prefixes ∧ st'.suffixes = st.suffixes := by
  simp only [parseLines, hnb, hnc, hnd, hinc, Bool.false_eq_true, if_false] at h
  split at h
  · simp at h
  · split at h
    · simp at h
    · simp only [Except.ok.injEq] at h
      subst h
      exact ⟨rfl, rfl, rfl, rfl⟩

/-- non-vacuity: the hypotheses of `C05_plain_include` hold for an include of a word list with a comment, a blank
    line and indentation -/
def exampleFs : Fs := { inc := [("words.ra".toList, "  foo\n##! c\n\nbar\n".toList)] }
instance (l : Bytes) : Decidable (PlainLine l) := by unfold PlainLine; infer_instance
example :
    include? (trimLeftSpTab "  ##!> include words".toList) = some ("words".toList, []) ∧
    exampleFs.find "words".toList = some "  foo\n##! c\n\nbar\n".toList ∧
    (∀ l ∈ scanLines "  foo\n##! c\n\nbar\n".toList, PlainLine l) ∧
    plainOut (scanLines "  foo\n##! c\n\nbar\n".toList) = "foo\nbar\n".toList := by
  decide

/-- **C05 (lookup).** A name is looked up in the include directory first: when a file of that name (with or without
    `.ra`) is there, it is the one that is read, whatever the exclude directory holds under the same name; only a name
    the include directory does not have is looked up in the exclude directory. -/
theorem C05_include_directory_first (fs : Fs) (name c : Bytes)
    (h : assocLookup (fileNameOf name) fs.inc = some c) : fs.find name = some c := by
  simp [Fs.find, h]

theorem C05_exclude_directory_second (fs : Fs) (name : Bytes)
    (h : assocLookup (fileNameOf name) fs.inc = none) : fs.find name = assocLookup (fileNameOf name) fs.exc := by
  simp [Fs.find, h]

example : (Fs.find ⟨[(b!"twice.ra", b!"alpha\n")], [(b!"twice.ra", b!"gamma\n")]⟩ b!"twice") = some b!"alpha\n" := by decide

end Crs.Props
