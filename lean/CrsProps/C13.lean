/-
  C13 — renumber-tests numbers tests 1..n, touches nothing else, and is idempotent.

  Model: `Crs.Renumber` (util/renumber_tests.go: processYaml, formatEndOfFile, processFile).
  Property theorems only; helper lemmas live in `CrsProofs`.
-/
import Crs.Renumber
import CrsProofs.Renumber
namespace Crs.Props
open Crs Crs.Renumber

/-- rule ids come from the file name pattern `\d{6}` -/
def DigitsOnly (r : Bytes) : Prop := ∀ c ∈ r, isDigit c = true

/-- a line carries at most one of the two keys (lines with both are outside the property's quantifier) -/
def NoMixed (l : Bytes) : Prop := lastKey? testIdKey l = none ∨ lastKey? testTitleKey l = none

instance (l : Bytes) : Decidable (NoMixed l) := by unfold NoMixed; infer_instance

def isIdLine (l : Bytes) : Bool := (lastKey? testIdKey l).isSome
def isTitleLine (l : Bytes) : Bool := (lastKey? testTitleKey l).isSome

/-- the plain reading of "the n-th test_id is n, the n-th test_title is <rule>-n, other lines untouched":
    what line `l` becomes when the lines `before` precede it -/
def specLine (r : Bytes) (before : List Bytes) (l : Bytes) : Bytes :=
  match lastKey? testIdKey l, lastKey? testTitleKey l with
  | some pre, none => pre ++ ' ' :: natToBytes (before.countP isIdLine + 1)
  | none, some pre => pre ++ ' ' :: (r ++ '-' :: natToBytes (before.countP isTitleLine + 1))
  | _, _ => l

/-! ### small facts about digits -/

private theorem digit_ne_colon {c : Char} (h : isDigit c = true) : c ≠ ':' := by
  intro e; subst e; exact absurd h (by decide)
private theorem digit_ne_nl {c : Char} (h : isDigit c = true) : c ≠ '\n' := by
  intro e; subst e; exact absurd h (by decide)
private theorem digit_ne_cr {c : Char} (h : isDigit c = true) : c ≠ '\r' := by
  intro e; subst e; exact absurd h (by decide)

private theorem colon_not_mem_nat (n : Nat) : ':' ∉ natToBytes n :=
  fun h => digit_ne_colon (natToBytes_digits n _ h) rfl

private theorem colon_not_mem_title (r : Bytes) (hr : DigitsOnly r) (n : Nat) :
    ':' ∉ r ++ '-' :: natToBytes n := by
  intro h
  simp only [List.mem_append, List.mem_cons] at h
  rcases h with h | h | h
  · exact digit_ne_colon (hr _ h) rfl
  · exact absurd h (by decide)
  · exact colon_not_mem_nat n h

/-! ### one line -/

/-- under `NoMixed`, `stepLine` is the plain reading with the running counters -/
theorem stepLine_spec (r : Bytes) (hr : DigitsOnly r) (st : St) (l : Bytes) (hm : NoMixed l) :
    stepLine r st l =
      match lastKey? testIdKey l, lastKey? testTitleKey l with
      | some pre, none => ({ st with ids := st.ids + 1 }, pre ++ ' ' :: natToBytes (st.ids + 1))
      | none, some pre => ({ st with titles := st.titles + 1 }, pre ++ ' ' :: (r ++ '-' :: natToBytes (st.titles + 1)))
      | _, _ => (st, l) := by
  unfold stepLine
  cases hi : lastKey? testIdKey l with
  | none =>
    cases ht : lastKey? testTitleKey l with
    | none => simp [stepTitle, ht]
    | some pre => simp [stepTitle, ht]
  | some pre =>
    rcases hm with hm | hm
    · rw [hi] at hm; exact absurd hm (by simp)
    · obtain ⟨a, rfl, d, c, hl, _⟩ := lastKey?_some_shape _ _ _ hi
      have : lastKey? testTitleKey ((a ++ testIdKey) ++ ' ' :: natToBytes (st.ids + 1)) = none :=
        lastKey?_none_rewrite testTitleKey l (a ++ testIdKey) (d :: c) _ (by simpa [List.append_assoc] using hl) hm
          titleKey_last (colon_not_mem_nat _) (titleKey_not_suffix_id a)
      simp only [List.append_assoc] at this
      simp [stepTitle, this, hm]

/-- `stepLine` applied to its own output, from the same state, changes nothing -/
theorem stepLine_idem (r : Bytes) (hr : DigitsOnly r) (st : St) (l : Bytes) (hm : NoMixed l) :
    stepLine r st (stepLine r st l).2 = stepLine r st l := by
  rw [stepLine_spec r hr st l hm]
  cases hi : lastKey? testIdKey l with
  | none =>
    cases ht : lastKey? testTitleKey l with
    | none =>
      simp only
      rw [stepLine_spec r hr st l hm, hi, ht]
    | some pre =>
      simp only
      obtain ⟨a, rfl, d, c, hl, _⟩ := lastKey?_some_shape _ _ _ ht
      have h1 : lastKey? testTitleKey ((a ++ testTitleKey) ++ ' ' :: (r ++ '-' :: natToBytes (st.titles + 1))) = some (a ++ testTitleKey) :=
        lastKey?_title_rewrite l _ _ ht (colon_not_mem_title r hr _)
      have h2 : lastKey? testIdKey ((a ++ testTitleKey) ++ ' ' :: (r ++ '-' :: natToBytes (st.titles + 1))) = none :=
        lastKey?_none_rewrite testIdKey l (a ++ testTitleKey) (d :: c) _ (by simpa [List.append_assoc] using hl) hi
          idKey_last (colon_not_mem_title r hr _) (idKey_not_suffix_title a)
      rw [stepLine_spec r hr st _ (Or.inl h2), h1, h2]
  | some pre =>
    rcases hm with hm | hm
    · rw [hi] at hm; exact absurd hm (by simp)
    · rw [hm]
      simp only
      obtain ⟨a, rfl, d, c, hl, _⟩ := lastKey?_some_shape _ _ _ hi
      have h1 : lastKey? testIdKey ((a ++ testIdKey) ++ ' ' :: natToBytes (st.ids + 1)) = some (a ++ testIdKey) :=
        lastKey?_id_rewrite l _ _ hi (colon_not_mem_nat _)
      have h2 : lastKey? testTitleKey ((a ++ testIdKey) ++ ' ' :: natToBytes (st.ids + 1)) = none :=
        lastKey?_none_rewrite testTitleKey l (a ++ testIdKey) (d :: c) _ (by simpa [List.append_assoc] using hl) hm
          titleKey_last (colon_not_mem_nat _) (titleKey_not_suffix_id a)
      rw [stepLine_spec r hr st _ (Or.inr h2), h1, h2]

/-! ### numbering and frame -/

/-- **C13 (numbering + frame).** With `k` id lines and `m` title lines already seen, the lines of a
    file are rewritten exactly as the plain reading says: the n-th `test_id` line gets number n, the
    n-th `test_title` line gets `<rule>-n`, every other line is returned unchanged. -/
theorem C13_numbering_frame (r : Bytes) (hr : DigitsOnly r) (ls : List Bytes) (hm : ∀ l ∈ ls, NoMixed l)
    (seen : List Bytes) (st : St)
    (hk : st.ids = seen.countP isIdLine) (hmt : st.titles = seen.countP isTitleLine) :
    renumberLines r st ls = (List.range ls.length).map (fun i => specLine r (seen ++ ls.take i) (ls.getD i [])) := by
  induction ls generalizing seen st with
  | nil => simp [renumberLines]
  | cons l ls ih =>
    have hml := hm l (by simp)
    simp only [renumberLines, List.length_cons, List.range_succ_eq_map, List.map_cons, List.map_map]
    congr 1
    · rw [stepLine_spec r hr st l hml]
      simp only [specLine, List.take_zero, List.append_nil, List.getD_cons_zero]
      cases hi : lastKey? testIdKey l <;> cases ht : lastKey? testTitleKey l <;> simp [hk, hmt]
    · have hst : (stepLine r st l).1.ids = (seen ++ [l]).countP isIdLine ∧
                 (stepLine r st l).1.titles = (seen ++ [l]).countP isTitleLine := by
        rw [stepLine_spec r hr st l hml]
        rcases hml with h | h
        · cases ht : lastKey? testTitleKey l <;>
            simp [h, ht, hk, hmt, List.countP_append, isIdLine, isTitleLine]
        · cases hi : lastKey? testIdKey l <;>
            simp [h, hi, hk, hmt, List.countP_append, isIdLine, isTitleLine]
      rw [ih (fun l' hl' => hm l' (by simp [hl'])) (seen ++ [l]) _ hst.1 hst.2]
      apply List.map_congr_left
      intro i _
      simp [Function.comp, List.append_assoc]

/-- `processFile`/`RenumberTests` start with both counters at zero: first id line is 1. -/
theorem C13_numbering_from_start (r : Bytes) (hr : DigitsOnly r) (ls : List Bytes) (hm : ∀ l ∈ ls, NoMixed l) :
    renumberLines r {} ls = (List.range ls.length).map (fun i => specLine r (ls.take i) (ls.getD i [])) := by
  simpa using C13_numbering_frame r hr ls hm [] {} rfl rfl

/-! ### shape of the output: normal form, end of file -/

private theorem lastKey?_pre_subset (K l pre : Bytes) (h : lastKey? K l = some pre) : ∀ c ∈ pre, c ∈ l := by
  obtain ⟨a, rfl, d, c, rfl, _⟩ := lastKey?_some_shape _ _ _ h
  intro x hx
  simp only [List.mem_append] at hx ⊢
  rcases hx with hx | hx
  · exact Or.inl (Or.inl hx)
  · exact Or.inl (Or.inr hx)

/-- a line is good when it can be written and scanned back unchanged -/
def GoodLine (l : Bytes) : Prop := '\n' ∉ l ∧ l.getLast? ≠ some '\r'

private theorem good_rewrite (K l pre t : Bytes) (h : lastKey? K l = some pre) (hl : '\n' ∉ l)
    (ht : ∀ c ∈ t, c ≠ '\n') (hne : t ≠ []) (hlast : t.getLast? ≠ some '\r') : GoodLine (pre ++ ' ' :: t) := by
  constructor
  · intro hm
    simp only [List.mem_append, List.mem_cons] at hm
    rcases hm with hm | hm | hm
    · exact hl (lastKey?_pre_subset K l pre h _ hm)
    · exact absurd hm (by decide)
    · exact ht _ hm rfl
  · rw [List.getLast?_append]
    cases t with
    | nil => exact absurd rfl hne
    | cons x xs =>
      simp only [List.getLast?_cons_cons]
      cases hx : (x :: xs).getLast? with
      | none => simp at hx
      | some y => rw [hx] at hlast; simpa using hlast

private theorem nat_last_ne_cr (n : Nat) : (natToBytes n).getLast? ≠ some '\r' := by
  intro h
  exact digit_ne_cr (natToBytes_digits n _ (List.mem_of_getLast? h)) rfl

private theorem good_stepTitle (r : Bytes) (hr : DigitsOnly r) (st : St) (l : Bytes) (hg : GoodLine l) :
    GoodLine (stepTitle r st l).2 := by
  unfold stepTitle
  cases ht : lastKey? testTitleKey l with
  | none => simpa using hg
  | some pre =>
    simp only
    apply good_rewrite testTitleKey l pre _ ht hg.1
    · intro c hc
      simp only [List.mem_append, List.mem_cons] at hc
      rcases hc with hc | hc | hc
      · exact digit_ne_nl (hr _ hc)
      · rw [hc]; decide
      · exact digit_ne_nl (natToBytes_digits _ _ hc)
    · simp
    · rw [List.getLast?_append]
      have hn := natToBytes_ne_nil (st.titles + 1)
      cases hnb : natToBytes (st.titles + 1) with
      | nil => exact absurd hnb hn
      | cons x xs =>
        simp only [List.getLast?_cons_cons]
        have := nat_last_ne_cr (st.titles + 1)
        rw [hnb] at this
        cases hx : (x :: xs).getLast? with
        | none => simp at hx
        | some y => rw [hx] at this; simpa using this

theorem good_stepLine (r : Bytes) (hr : DigitsOnly r) (st : St) (l : Bytes) (hg : GoodLine l) :
    GoodLine (stepLine r st l).2 := by
  unfold stepLine
  cases hi : lastKey? testIdKey l with
  | none => exact good_stepTitle r hr st l hg
  | some pre =>
    apply good_stepTitle r hr
    apply good_rewrite testIdKey l pre _ hi hg.1
    · intro c hc; exact digit_ne_nl (natToBytes_digits _ _ hc)
    · exact natToBytes_ne_nil _
    · exact nat_last_ne_cr _

theorem good_renumberLines (r : Bytes) (hr : DigitsOnly r) (st : St) (ls : List Bytes)
    (hg : ∀ l ∈ ls, GoodLine l) : ∀ l ∈ renumberLines r st ls, GoodLine l := by
  induction ls generalizing st with
  | nil => simp [renumberLines]
  | cons l ls ih =>
    intro l' hl'
    simp only [renumberLines, List.mem_cons] at hl'
    rcases hl' with rfl | hl'
    · exact good_stepLine r hr st l (hg l (by simp))
    · exact ih _ (fun x hx => hg x (by simp [hx])) l' hl'

theorem isBlank_nil : isBlank [] = true := by simp [isBlank, isBlankU]

theorem dropTrailingBlank_snoc_nil (ls : List Bytes) : dropTrailingBlank (ls ++ [[]]) = dropTrailingBlank ls := by
  induction ls with
  | nil => simp [dropTrailingBlank, isBlank_nil]
  | cons l ls ih => simp [dropTrailingBlank, ih]

theorem dropTrailingBlank_prefix (ls : List Bytes) : dropTrailingBlank ls <+: ls := by
  induction ls with
  | nil => simp [dropTrailingBlank]
  | cons l ls ih =>
    simp only [dropTrailingBlank]
    cases h : dropTrailingBlank ls with
    | nil =>
      simp only
      split
      · exact List.nil_prefix
      · exact ⟨ls, by simp⟩
    | cons r rs =>
      simp only
      rw [h] at ih
      obtain ⟨t, ht⟩ := ih
      exact ⟨t, by simp [← ht]⟩

theorem dropTrailingBlank_cons_of_cons (l : Bytes) (ls : List Bytes) (r : Bytes) (rs : List Bytes)
    (h : dropTrailingBlank ls = r :: rs) : dropTrailingBlank (l :: ls) = l :: r :: rs := by
  simp [dropTrailingBlank, h]

theorem dropTrailingBlank_cons_of_nil (l : Bytes) (ls : List Bytes)
    (h : dropTrailingBlank ls = []) : dropTrailingBlank (l :: ls) = if isBlank l then [] else [l] := by
  simp [dropTrailingBlank, h]

theorem dropTrailingBlank_idem (ls : List Bytes) : dropTrailingBlank (dropTrailingBlank ls) = dropTrailingBlank ls := by
  induction ls with
  | nil => simp [dropTrailingBlank]
  | cons l ls ih =>
    cases h : dropTrailingBlank ls with
    | nil =>
      rw [dropTrailingBlank_cons_of_nil l ls h]
      split
      · simp [dropTrailingBlank]
      · rename_i hb; simp [dropTrailingBlank, hb]
    | cons r rs =>
      rw [h] at ih
      rw [dropTrailingBlank_cons_of_cons l ls r rs h, dropTrailingBlank_cons_of_cons l (r :: rs) r rs ih]

/-- the last line that survives is not blank -/
theorem dropTrailingBlank_last (ls : List Bytes) (l : Bytes) (h : (dropTrailingBlank ls).getLast? = some l) :
    isBlank l = false := by
  induction ls with
  | nil => simp [dropTrailingBlank] at h
  | cons x xs ih =>
    simp only [dropTrailingBlank] at h
    cases hd : dropTrailingBlank xs with
    | nil =>
      rw [hd] at h
      simp only at h
      split at h
      · simp at h
      · rename_i hb
        simp only [List.getLast?_singleton, Option.some.injEq] at h
        subst h; simpa using hb
    | cons r rs =>
      rw [hd] at h ih
      simp only [List.getLast?_cons_cons] at h
      exact ih h

/-- **normal form of `processYaml`**: the renumbered lines, without trailing blank lines, each
    terminated by one `\n`. -/
theorem processYaml_eq (r : Bytes) (hr : DigitsOnly r) (b : Bytes)
    (hcr : ∀ l ∈ scanLines b, l.getLast? ≠ some '\r') :
    processYaml r b = unlines (dropTrailingBlank (renumberLines r {} (scanLines b))) := by
  simp only [processYaml]
  have hg : ∀ l ∈ renumberLines r {} (scanLines b), GoodLine l :=
    good_renumberLines r hr _ _ (fun l hl => ⟨scanLines_noNl b l hl, hcr l hl⟩)
  rw [splitNl_unlines _ (fun l hl => (hg l hl).1)]
  have : formatEndOfFile (renumberLines r {} (scanLines b) ++ [[]]) =
      dropTrailingBlank (renumberLines r {} (scanLines b)) ++ [[]] := by
    unfold formatEndOfFile
    split
    · rename_i h; simp at h
    · rw [dropTrailingBlank_snoc_nil]
  rw [this, joinNl_snoc_nil]

/-- **C13 (end of file).** The rewritten file is empty (when nothing but blank lines is left) or ends
    with exactly one newline that terminates a non-blank line. -/
theorem C13_eof (r : Bytes) (hr : DigitsOnly r) (b : Bytes)
    (hcr : ∀ l ∈ scanLines b, l.getLast? ≠ some '\r') :
    processYaml r b = [] ∨
    ∃ ls l, processYaml r b = unlines (ls ++ [l]) ∧ isBlank l = false := by
  rw [processYaml_eq r hr b hcr]
  cases h : (dropTrailingBlank (renumberLines r {} (scanLines b))).getLast? with
  | none =>
    left
    have : dropTrailingBlank (renumberLines r {} (scanLines b)) = [] := List.getLast?_eq_none_iff.mp h
    simp [this]
  | some l =>
    right
    obtain ⟨ls, hls⟩ : ∃ ls, dropTrailingBlank (renumberLines r {} (scanLines b)) = ls ++ [l] := by
      have := List.getLast?_eq_some_iff.mp h
      obtain ⟨ys, hys⟩ := this
      exact ⟨ys, hys⟩
    exact ⟨ls, l, by rw [hls], dropTrailingBlank_last _ l h⟩

/-! ### idempotence -/

theorem renumberLines_idem (r : Bytes) (hr : DigitsOnly r) (st : St) (ls : List Bytes) (hm : ∀ l ∈ ls, NoMixed l) :
    renumberLines r st (renumberLines r st ls) = renumberLines r st ls := by
  induction ls generalizing st with
  | nil => simp [renumberLines]
  | cons l ls ih =>
    simp only [renumberLines]
    rw [stepLine_idem r hr st l (hm l (by simp))]
    rw [ih _ (fun l' hl' => hm l' (by simp [hl']))]

theorem renumberLines_take (r : Bytes) (st : St) (ls : List Bytes) (k : Nat) :
    renumberLines r st (ls.take k) = (renumberLines r st ls).take k := by
  induction ls generalizing st k with
  | nil => simp [renumberLines]
  | cons l ls ih =>
    cases k with
    | zero => simp [renumberLines]
    | succ k => simp [renumberLines, ih]

/-- **C13 (idempotence).** Renumbering a renumbered file changes nothing. Hypotheses: the rule id
    consists of digits (file-name pattern), no line carries both keys, and no line ends in two
    carriage returns (`bufio.ScanLines` removes one CR per run: known finding D22). -/
theorem C13_idempotent (r : Bytes) (hr : DigitsOnly r) (b : Bytes)
    (hm : ∀ l ∈ scanLines b, NoMixed l)
    (hcr : ∀ l ∈ scanLines b, l.getLast? ≠ some '\r') :
    processYaml r (processYaml r b) = processYaml r b := by
  have hg : ∀ l ∈ renumberLines r {} (scanLines b), GoodLine l :=
    good_renumberLines r hr _ _ (fun l hl => ⟨scanLines_noNl b l hl, hcr l hl⟩)
  rw [processYaml_eq r hr b hcr]
  obtain ⟨t, ht⟩ := dropTrailingBlank_prefix (renumberLines r {} (scanLines b))
  have hsub : ∀ l ∈ dropTrailingBlank (renumberLines r {} (scanLines b)), GoodLine l := by
    intro l hl
    apply hg
    rw [← ht]
    exact List.mem_append_left _ hl
  have hscan : scanLines (unlines (dropTrailingBlank (renumberLines r {} (scanLines b)))) =
      dropTrailingBlank (renumberLines r {} (scanLines b)) :=
    scanLines_unlines _ (fun l hl => (hsub l hl).1) (fun l hl => (hsub l hl).2)
  rw [processYaml_eq r hr _ (by rw [hscan]; exact fun l hl => (hsub l hl).2), hscan]
  -- renumbering a prefix of the renumbered lines gives that prefix again
  have htake : dropTrailingBlank (renumberLines r {} (scanLines b)) =
      (renumberLines r {} (scanLines b)).take (dropTrailingBlank (renumberLines r {} (scanLines b))).length :=
    List.prefix_iff_eq_take.mp ⟨t, ht⟩
  have : renumberLines r {} (dropTrailingBlank (renumberLines r {} (scanLines b))) =
      dropTrailingBlank (renumberLines r {} (scanLines b)) := by
    conv => lhs; rw [htake]
    rw [renumberLines_take, renumberLines_idem r hr _ _ hm, ← htake]
  rw [this, dropTrailingBlank_idem]

/-- the CR hypothesis of `C13_idempotent` is needed: `a\r\r\n` loses one CR per run (D22). -/
theorem C13_idempotent_needs_noCRCR :
    processYaml ['9','2','0','1','0','0'] (processYaml ['9','2','0','1','0','0'] ['a', '\r', '\r', '\n'])
      ≠ processYaml ['9','2','0','1','0','0'] ['a', '\r', '\r', '\n'] := by
  decide

/-- non-vacuity: a file with ids, a title, CRLF and trailing blanks satisfies the hypotheses -/
def exampleFile : Bytes := "- test_id: 7\r\n  x: 1\n- test_title: t\n \n".toList
example :
    (∀ l ∈ scanLines exampleFile, NoMixed l) ∧ (∀ l ∈ scanLines exampleFile, l.getLast? ≠ some '\r') ∧
    processYaml "920100".toList exampleFile = "- test_id: 1\n  x: 1\n- test_title: 920100-1\n".toList := by
  decide

/-! ### check mode -/

/-- **C13 (--check).** Check mode never writes, and it succeeds exactly when a rewrite would leave
    the file byte-identical; without `--check` the file is written only when it changes. -/
theorem C13_check_iff (r b : Bytes) :
    (processFile r b true).1 = none ∧
    ((processFile r b true).2 = true ↔ processYaml r b = b) ∧
    ((processFile r b false).1 = none ↔ processYaml r b = b) ∧
    (∀ out, (processFile r b false).1 = some out → out = processYaml r b) := by
  unfold processFile
  by_cases h : processYaml r b = b
  · simp [h]
  · have hb : (processYaml r b == b) = false := by simpa using h
    simp [h, hb]

end Crs.Props
