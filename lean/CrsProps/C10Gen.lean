/-
  C10, lifted to the compiler: formatting a file never changes what `regex generate` makes of it.

  `C10_generate_same`: for every file `b` the formatter accepts (hypothesis: no line ends in `\r\r`, the listed finding
  D22), every include tree, configuration, engine and visiting order of the definitions,
  `generate (format b) = generate b` — the same regular expression or the same failure.

  Route (`CrsProofs/FormatGen.lean`): the parser's step on a line is a change of state that does not depend on the
  state (`parseLines_cons_delta`); on a directive or text line the formatted spelling yields the same change
  (`C10_view_preserved`); on a block start line the two spellings differ in white space before the argument and at
  the end of the line only (`block_start_spell`); such differences survive the expansion of definitions, because a
  reference `{{name}}` contains neither white space nor `#` nor a line feed (`TRel.subst`: `strings.ReplaceAll` works on each
  complete line separately), and the assembler reads both spellings as the start of the same processor with the same
  argument (`TRel.lines`, `runLines_congr`). Header lines and blank lines are skipped by the parser.
-/
import CrsProofs.FormatGen
namespace Crs.Props
open Crs Crs.Format Crs.Pat Crs.Parser Crs.Asm Crs.FormatGen

/-- the parser reads the formatted file as it reads the file as written: same definitions, flags, prefixes and suffixes,
    and texts for the assembler that differ in the spelling of block start lines only; or both fail the same way -/
theorem C10_parse_same (b out : Bytes) (hcr : NoCRCR b) (h : formatFile b = .ok out)
    (fs : Fs) (o1 o2 : Ord) (fuel : Nat) (vars0 : Vars) (hv : VarsOK vars0) :
    ERel (parse fs o1 o2 fuel vars0 b) (parse fs o1 o2 fuel vars0 out) := by
  apply parse_fmt fs o1 o2 fuel vars0 hv
  generalize fuel - 1 = f
  have hX : ∀ l ∈ scanLines b, Good l := fun l hl => ⟨scanLines_noNl b l hl, hcr l hl⟩
  have hP : parsedLines b = (scanLines b).map trimLeftSpTab := by
    unfold parsedLines
    apply scanLines_unlines
    · intro l hl; simp only [List.mem_map] at hl; obtain ⟨x, hx, rfl⟩ := hl; exact (good_trimLeft x (hX x hx)).1
    · intro l hl; simp only [List.mem_map] at hl; obtain ⟨x, hx, rfl⟩ := hl; exact (good_trimLeft x (hX x hx)).2
  obtain ⟨ls, body, k, hfl, hpw, hshape, hout⟩ := C10_file_lines b out h
  obtain ⟨_, _, R3⟩ := formatLines_reemit (parsedLines b) 0 ls (parsedLines_leftTrimmed b) hfl
  have hgood : ∀ l ∈ ls, Good l :=
    R3 (by rw [hP]; intro l hl; simp only [List.mem_map] at hl; obtain ⟨x, hx, rfl⟩ := hl; exact good_trimLeft x (hX x hx))
  have hbody : ∀ l ∈ body, Good l := by
    intro l hl
    rcases hshape with e | e | ⟨_, e⟩
    · exact hgood l (by rw [e]; simp [hl])
    · exact hgood l (by rw [e]; simp [hl])
    · rw [e] at hl; simp at hl
  have hL2 : ∀ l ∈ header1 :: header2 :: [] :: body, Good l := by
    intro l hl
    simp only [List.mem_cons] at hl
    rcases hl with rfl | rfl | rfl | hl
    · exact good_header1
    · exact good_header2
    · exact good_nil
    · exact hbody l hl
  have hs2 : scanLines out = header1 :: header2 :: [] :: body := by
    rw [hout]; exact scanLines_unlines _ (fun l hl => (hL2 l hl).1) (fun l hl => (hL2 l hl).2)
  -- the left-hand side: the lines the formatter works on
  have hA : parseLines fs o1 o2 f { vars := vars0 } (scanLines b) = parseLines fs o1 o2 f { vars := vars0 } (parsedLines b) := by
    rw [hP, parseLines_map_trim]
  -- the right-hand side: header lines and trailing blank lines are skipped
  have hskipR : ∀ (k : Nat) (st : PState), parseLines fs o1 o2 f st (List.replicate k []) = .ok st := fun k st =>
    parseLines_skip fs o1 o2 f _ (by intro l hl; rw [List.eq_of_mem_replicate hl]; exact delta_nil fs o1 o2 f) st
  have htail : ∀ (k : Nat) (st : PState),
      parseLines fs o1 o2 f st (body ++ List.replicate k []) = parseLines fs o1 o2 f st body := by
    intro k st
    rw [parseLines_append]
    cases parseLines fs o1 o2 f st body with
    | error e => rfl
    | ok s => exact hskipR k s
  have hhead : ∀ (X : List Bytes) (st : PState),
      parseLines fs o1 o2 f st (header1 :: header2 :: [] :: X) = parseLines fs o1 o2 f st X := by
    intro X st
    simp only [parseLines_cons_delta, delta_header1, delta_header2, delta_nil, Delta.apply]
  have hB : parseLines fs o1 o2 f { vars := vars0 } (scanLines out) = parseLines fs o1 o2 f { vars := vars0 } ls := by
    rw [hs2, hhead]
    rcases hshape with e | e | ⟨e1, e2⟩
    · rw [e, htail]
    · rw [e, hhead, htail]
    · rw [e1, e2]
      simp only [parseLines_cons_delta, delta_header1, delta_header2, Delta.apply]
  rw [hA, hB]
  have hpw' : Pointwise FmtLine (parsedLines b) ls := by
    have := Pointwise.strengthen (P := fun l => trimLeftSpTab l = l ∧ '\n' ∉ l) hpw
      (fun l hl => ⟨parsedLines_leftTrimmed b l hl, parsedLines_noNl b l hl⟩)
    exact Crs.FormatGen.Pointwise.mono this (fun a b hr => ⟨hr.1.1, hr.1.2, hr.2⟩)
  exact parseLines_fmt fs o1 o2 f hpw' _ _ ⟨.nil, rfl, rfl, rfl, rfl, hv⟩

/-- **C10 (the compiler's side).** `regex generate` on the formatted file gives exactly what it gives on the file as
    written: the same regular expression, or the same failure. For every engine, include tree, configuration and
    visiting order of the definitions. Hypothesis: no line of the file ends in `\r\r` (finding D22). -/
theorem C10_generate_same (E : Engine) (fs : Fs) (cfg : Config) (o1 o2 : Ord) (b out : Bytes)
    (hcr : NoCRCR b) (h : formatFile b = .ok out) :
    generate E fs cfg o1 o2 out = generate E fs cfg o1 o2 b := by
  have hp := C10_parse_same b out hcr h fs o1 o2 defaultFuel [] (by intro p hp; simp at hp)
  unfold generate
  cases h1 : parse fs o1 o2 defaultFuel [] b with
  | error e1 =>
    cases h2 : parse fs o1 o2 defaultFuel [] out with
    | error e2 => rw [h1, h2] at hp; simp only [ERel] at hp; rw [hp]
    | ok s2 => rw [h1, h2] at hp; simp [ERel] at hp
  | ok s1 =>
    cases h2 : parse fs o1 o2 defaultFuel [] out with
    | error e2 => rw [h1, h2] at hp; simp [ERel] at hp
    | ok s2 =>
      rw [h1, h2] at hp
      have hs : SRel s1 s2 := hp
      simp only
      rw [← runLines_congr E cfg hs.out.lines, ← hs.flags, ← hs.prefixes, ← hs.suffixes]

/-- the formatter's failures aside, this is the whole property: a file that formats compiles to the same expression -/
theorem C10_format_then_generate (E : Engine) (fs : Fs) (cfg : Config) (o1 o2 : Ord) (b out : Bytes) (r : Except Fault Bytes)
    (hcr : NoCRCR b) (h : formatFile b = .ok out) (hg : generate E fs cfg o1 o2 b = r) :
    generate E fs cfg o1 o2 out = r := by
  rw [C10_generate_same E fs cfg o1 o2 b out hcr h]; exact hg

/-- non-vacuity: a file with oddly spelled block start lines, a definition used in a block argument position and an
    indented directive formats, and satisfies the hypothesis -/
example : (match formatFile "##!>  define  x  unix\n \t##!>cmdline   {{x}}  \nls\n##!<\n".toList with
      | .ok _ => true | .error _ => false) = true ∧
    NoCRCR "##!>  define  x  unix\n \t##!>cmdline   {{x}}  \nls\n##!<\n".toList := by
  refine ⟨by decide +kernel, ?_⟩
  intro l hl
  have : scanLines "##!>  define  x  unix\n \t##!>cmdline   {{x}}  \nls\n##!<\n".toList =
      ["##!>  define  x  unix".toList, " \t##!>cmdline   {{x}}  ".toList, "ls".toList, "##!<".toList] := by decide +kernel
  rw [this] at hl
  simp only [List.mem_cons, List.not_mem_nil, or_false] at hl
  rcases hl with rfl | rfl | rfl | rfl <;> decide

end Crs.Props
