/-
  C18, lexical paths: the model `Crs.Path.clean` of Go's `path.Clean` (tied on every path over {a, b, ., /} up to length
  5 / 7 and on random joins) has the shape the commands rely on, for all paths:

  * `clean_normal`: what remains consists of ordinary elements (not empty, not `.`, not `..`, no separator inside),
    preceded — in a relative path only — by a run of `..`;
  * `clean_idempotent`: cleaning twice is cleaning once (a cleaned argument addresses the same file however often it
    passes through `path.Join`).
-/
import Crs.Path
import Crs.Cli
import CrsProofs.Lines

namespace Crs.Props
open Crs Crs.Path

/-- an ordinary path element -/
def NormalComp (c : Bytes) : Prop := c ≠ [] ∧ c ≠ dot ∧ c ≠ dotdot ∧ '/' ∉ c

/-- the kept elements, last first: ordinary elements on top of a run of `..` (none in a rooted path) -/
def StackOk (rooted : Bool) (s : List Bytes) : Prop :=
  ∃ ns k, s = ns ++ List.replicate k dotdot ∧ (∀ c ∈ ns, NormalComp c) ∧ (rooted = true → k = 0)

theorem dotdot_noSep : '/' ∉ dotdot := by decide

theorem push_ok (rooted : Bool) (s : List Bytes) (c : Bytes) (hs : StackOk rooted s) (hc : '/' ∉ c) :
    StackOk rooted (push rooted s c) := by
  obtain ⟨ns, k, rfl, hns, hk⟩ := hs
  unfold push
  by_cases h1 : (c == [] || c == dot) = true
  · simp only [h1, if_true]; exact ⟨ns, k, rfl, hns, hk⟩
  · simp only [h1, Bool.false_eq_true, if_false]
    have hne : c ≠ [] := by intro h; subst h; simp at h1
    have hnd : c ≠ dot := by intro h; subst h; simp at h1
    by_cases h2 : (c == dotdot) = true
    · have hcd : c = dotdot := by simpa using h2
      subst hcd
      simp only [BEq.rfl, if_true]
      cases ns with
      | nil =>
        cases k with
        | zero =>
          simp only [List.replicate_zero, List.append_nil]
          cases rooted
          · exact ⟨[], 1, rfl, by simp, by simp⟩
          · exact ⟨[], 0, rfl, by simp, by simp⟩
        | succ k =>
          simp only [List.nil_append, List.replicate_succ, BEq.rfl, if_true]
          refine ⟨[], k + 2, by simp [List.replicate_succ], by simp, ?_⟩
          intro hr; have := hk hr; omega
      | cons top rest =>
        have htop : NormalComp top := hns top (by simp)
        have : (top == dotdot) = false := by
          have := htop.2.2.1
          simpa using this
        simp only [List.cons_append, this, Bool.false_eq_true, if_false]
        exact ⟨rest, k, rfl, fun c hc => hns c (by simp [hc]), hk⟩
    · simp only [h2, Bool.false_eq_true, if_false]
      have hndd : c ≠ dotdot := by intro h; subst h; simp at h2
      refine ⟨c :: ns, k, by simp, ?_, hk⟩
      intro x hx
      rcases List.mem_cons.mp hx with rfl | hx
      · exact ⟨hne, hnd, hndd, hc⟩
      · exact hns x hx

theorem foldl_push_ok (rooted : Bool) (comps : List Bytes) (s : List Bytes) (hs : StackOk rooted s)
    (hc : ∀ c ∈ comps, '/' ∉ c) : StackOk rooted (comps.foldl (push rooted) s) := by
  induction comps generalizing s with
  | nil => exact hs
  | cons c cs ih =>
    simp only [List.foldl_cons]
    exact ih _ (push_ok rooted s c hs (hc c (by simp))) (fun x hx => hc x (by simp [hx]))

/-- the elements of a cleaned path, in path order: a run of `..` (relative paths only), then ordinary elements -/
def Normal (rooted : Bool) (comps : List Bytes) : Prop :=
  ∃ k ns, comps = List.replicate k dotdot ++ ns ∧ (∀ c ∈ ns, NormalComp c) ∧ (rooted = true → k = 0)

/-- **C18 (shape of a cleaned path).** -/
theorem clean_normal (p : Bytes) : Normal (isRooted p) (cleanComps (isRooted p) (splitCh '/' p)) := by
  have h := foldl_push_ok (isRooted p) (splitCh '/' p) [] ⟨[], 0, rfl, by simp, by simp⟩ (splitCh_fields_noSep '/' p)
  obtain ⟨ns, k, hs, hns, hk⟩ := h
  refine ⟨k, ns.reverse, ?_, ?_, hk⟩
  · unfold cleanComps; rw [hs]; simp
  · intro c hc; exact hns c (by simpa using hc)

/-! ### cleaning a cleaned path -/

theorem push_normal (rooted : Bool) (s : List Bytes) (c : Bytes) (h : NormalComp c) : push rooted s c = c :: s := by
  obtain ⟨h1, h2, h3, _⟩ := h
  unfold push
  have e1 : (c == []) = false := by simpa using h1
  have e2 : (c == dot) = false := by simpa using h2
  have e3 : (c == dotdot) = false := by simpa using h3
  simp [e1, e2, e3]

theorem foldl_push_normals (rooted : Bool) (ns s : List Bytes) (h : ∀ c ∈ ns, NormalComp c) :
    ns.foldl (push rooted) s = ns.reverse ++ s := by
  induction ns generalizing s with
  | nil => rfl
  | cons c cs ih =>
    simp only [List.foldl_cons]
    rw [push_normal rooted s c (h c (by simp)), ih _ (fun x hx => h x (by simp [hx]))]
    simp

theorem foldl_push_dotdots (k j : Nat) :
    (List.replicate k dotdot).foldl (push false) (List.replicate j dotdot) = List.replicate (j + k) dotdot := by
  induction k generalizing j with
  | zero => rfl
  | succ k ih =>
    simp only [List.replicate_succ, List.foldl_cons]
    have : push false (List.replicate j dotdot) dotdot = List.replicate (j + 1) dotdot := by
      cases j with
      | zero => decide
      | succ j => simp [push, List.replicate_succ, dotdot, dot]
    rw [this, ih (j + 1)]
    congr 1; omega

/-- the fold reproduces a normal list of elements -/
theorem cleanComps_normal (rooted : Bool) (comps : List Bytes) (h : Normal rooted comps) : cleanComps rooted comps = comps := by
  obtain ⟨k, ns, rfl, hns, hk⟩ := h
  unfold cleanComps
  rw [List.foldl_append]
  cases rooted with
  | true =>
    have : k = 0 := hk rfl
    subst this
    simp only [List.replicate_zero, List.foldl_nil, List.nil_append]
    rw [foldl_push_normals true ns [] hns]; simp
  | false =>
    have := foldl_push_dotdots k 0
    simp only [List.replicate_zero, Nat.zero_add] at this
    rw [this, foldl_push_normals false ns _ hns]
    simp

theorem normal_noSep (rooted : Bool) (comps : List Bytes) (h : Normal rooted comps) : ∀ c ∈ comps, '/' ∉ c := by
  obtain ⟨k, ns, rfl, hns, _⟩ := h
  intro c hc
  rcases List.mem_append.mp hc with hc | hc
  · rw [List.eq_of_mem_replicate hc]; exact dotdot_noSep
  · exact (hns c hc).2.2.2

theorem normal_head_ne (rooted : Bool) (c : Bytes) (cs : List Bytes) (h : Normal rooted (c :: cs)) : c.head? ≠ some '/' ∧ c ≠ [] := by
  obtain ⟨k, ns, he, hns, _⟩ := h
  have hc : c = dotdot ∨ NormalComp c := by
    cases k with
    | zero =>
      simp only [List.replicate_zero, List.nil_append] at he
      exact .inr (hns c (by rw [← he]; simp))
    | succ k =>
      simp only [List.replicate_succ, List.cons_append, List.cons.injEq] at he
      exact .inl he.1
  rcases hc with rfl | hc
  · exact ⟨by decide, by decide⟩
  · refine ⟨?_, hc.1⟩
    intro hh
    cases c with
    | nil => exact hc.1 rfl
    | cons a as =>
      simp only [List.head?_cons, Option.some.injEq] at hh
      subst hh
      exact hc.2.2.2 (by simp)

theorem joinCh_head (c : Bytes) (cs : List Bytes) (h : c ≠ []) : (joinCh '/' (c :: cs)).head? = c.head? := by
  cases c with
  | nil => exact absurd rfl h
  | cons a as => cases cs <;> simp [joinCh]

theorem cleanComps_nil_cons (rooted : Bool) (comps : List Bytes) : cleanComps rooted ([] :: comps) = cleanComps rooted comps := by
  unfold cleanComps
  simp [push]

/-- **C18 (cleaning is idempotent).** -/
theorem clean_idempotent (p : Bytes) : clean (clean p) = clean p := by
  have hn := clean_normal p
  generalize hcomps : cleanComps (isRooted p) (splitCh '/' p) = comps at hn
  have hclean : clean p = if isRooted p then '/' :: joinCh '/' comps else if comps.isEmpty then dot else joinCh '/' comps := by
    unfold clean; simp only [hcomps]
  cases hr : isRooted p with
  | true =>
    rw [hr] at hn
    simp only [hr, if_true] at hclean
    rw [hclean]
    have hroot : isRooted ('/' :: joinCh '/' comps) = true := by simp [isRooted]
    unfold clean
    simp only [hroot, if_true, splitCh_sep, cleanComps_nil_cons]
    cases comps with
    | nil => simp [joinCh, cleanComps, push]
    | cons c cs =>
      rw [splitCh_joinCh '/' (c :: cs) (by simp) (normal_noSep true _ hn), cleanComps_normal true _ hn]
  | false =>
    rw [hr] at hn
    simp only [hr, Bool.false_eq_true, if_false] at hclean
    rw [hclean]
    cases comps with
    | nil => decide
    | cons c cs =>
      simp only [List.isEmpty_cons, Bool.false_eq_true, if_false]
      have hh := normal_head_ne false c cs hn
      have hroot : isRooted (joinCh '/' (c :: cs)) = false := by
        unfold isRooted
        rw [joinCh_head c cs hh.2]
        cases hc : c.head? with
        | none => rfl
        | some a =>
          have : a ≠ '/' := by intro h; subst h; exact hh.1 hc
          simp [this]
      unfold clean
      simp only [hroot, Bool.false_eq_true, if_false]
      rw [splitCh_joinCh '/' (c :: cs) (by simp) (normal_noSep false _ hn), cleanComps_normal false _ hn]
      simp

/-- **C18/C15 (a cleaned path that begins with an ordinary character stays below where it begins).** When a cleaned path
    does not begin with `/` or `.`, every one of its elements is ordinary: none is empty, `.` or `..`. In particular a
    cleaned path that begins with `regex-assembly/` names a file below that directory — it cannot climb out again. -/
theorem clean_ordinary_elements (p : Bytes) (c : Char) (hhead : (clean p).head? = some c) (h1 : c ≠ '/') (h2 : c ≠ '.') :
    ∀ e ∈ splitCh '/' (clean p), NormalComp e := by
  have hn := clean_normal p
  generalize hcomps : cleanComps (isRooted p) (splitCh '/' p) = comps at hn
  have hclean : clean p = if isRooted p then '/' :: joinCh '/' comps else if comps.isEmpty then dot else joinCh '/' comps := by
    unfold clean; simp only [hcomps]
  cases hr : isRooted p with
  | true =>
    simp only [hr, if_true] at hclean
    rw [hclean] at hhead
    simp only [List.head?_cons, Option.some.injEq] at hhead
    exact absurd hhead.symm h1
  | false =>
    rw [hr] at hn
    simp only [hr, Bool.false_eq_true, if_false] at hclean
    cases comps with
    | nil =>
      simp only [List.isEmpty_nil, if_true] at hclean
      rw [hclean] at hhead
      simp only [dot, List.head?_cons, Option.some.injEq] at hhead
      exact absurd hhead.symm h2
    | cons x xs =>
      simp only [List.isEmpty_cons, Bool.false_eq_true, if_false] at hclean
      obtain ⟨k, ns, he, hns, _⟩ := hn
      have hx := normal_head_ne false x xs ⟨k, ns, he, hns, by simp⟩
      have hk : k = 0 := by
        cases k with
        | zero => rfl
        | succ k =>
          exfalso
          simp only [List.replicate_succ, List.cons_append, List.cons.injEq] at he
          rw [hclean, joinCh_head x xs hx.2, he.1] at hhead
          simp only [dotdot, List.head?_cons, Option.some.injEq] at hhead
          exact h2 hhead.symm
      subst hk
      simp only [List.replicate_zero, List.nil_append] at he
      rw [hclean, splitCh_joinCh '/' (x :: xs) (by simp) (normal_noSep false _ ⟨0, ns, by simpa using he, hns, by simp⟩), he]
      exact hns

/-- **C15 (the file `regex format ARG` opens lies below regex-assembly).** Whatever the argument — separators, `.`, `..` —
    when the command accepts the path it resolves to (`isFormatTarget`), every element of that path is an ordinary name:
    the path begins with `regex-assembly/` and never leaves it again. -/
theorem C15_format_target_below (arg : Bytes) (h : Cli.isFormatTarget (Cli.formatTarget arg) = true) :
    ∀ e ∈ splitCh '/' (Cli.formatTarget arg), NormalComp e := by
  unfold Cli.formatTarget at h ⊢
  generalize Cli.formatPathOf arg = q at h ⊢
  have hp : hasPrefix b!"regex-assembly/" (clean q) = true := by
    simp only [Cli.isFormatTarget, Cli.inDir, Bool.and_eq_true] at h
    exact h.1
  cases hq : clean q with
  | nil => rw [hq] at hp; simp [hasPrefix] at hp
  | cons c cs =>
    rw [hq] at hp
    have hc : c = 'r' := by
      simp only [hasPrefix, List.isPrefixOf, Bool.and_eq_true, beq_iff_eq] at hp
      exact hp.1.symm
    rw [← hq]
    exact clean_ordinary_elements q c (by rw [hq]; rfl) (by rw [hc]; decide) (by rw [hc]; decide)

/-- non-vacuity and examples: Go's documented cases -/
example : clean b!"a//b/./c/.." = b!"a/b" ∧ clean b!"/../a" = b!"/a" ∧ clean b!"a/../../b" = b!"../b" ∧ clean [] = b!"." ∧
    clean b!"/" = b!"/" ∧ clean b!"a/.." = b!"." := by decide

end Crs.Props
