/-
  C12, the display of `regex compare` (model Crs.CompareView of compareRegex, tied byte for byte by the operations
  `compare.view`, `cli.compareOut`, `cli.compareAllOut`).

  What a reader of the display relies on, for all pairs of expressions of any length:
  * nothing of either expression is hidden: the pieces shown, put together, are the expressions (`view_shows_current`,
    `view_shows_generated`);
  * the pieces are pairwise equal exactly when the expressions are equal (`view_rows_equal_iff`);
  * for two different expressions exactly one pair is framed as "first difference": the first pair whose pieces differ;
    every pair before it consists of equal pieces and no later pair is framed (`view_first_difference`).
-/
import Crs.CompareView

namespace Crs.Props
open Crs Crs.CompareView

/-! ### pieces -/

theorem flatten_chunks (s : Bytes) (n : Nat) :
    ((List.range n).map (chunkAt s)).flatten = s.take (50 * n) := by
  induction n with
  | zero => simp
  | succ n ih =>
    rw [List.range_succ, List.map_append, List.flatten_append, ih]
    simp only [List.map_cons, List.map_nil, List.flatten_cons, List.flatten_nil, List.append_nil, chunkAt]
    rw [show 50 * (n + 1) = 50 * n + 50 by omega, List.take_add]

theorem nChunks_cur (cur gen : Bytes) : cur.length ≤ 50 * nChunks cur gen := by
  unfold nChunks; omega

theorem nChunks_gen (cur gen : Bytes) : gen.length ≤ 50 * nChunks cur gen := by
  unfold nChunks; omega

/-- **C12 (display, current).** The pieces shown for the stored expression, put together, are the stored expression. -/
theorem view_shows_current (cur gen : Bytes) : ((rows cur gen).map Prod.fst).flatten = cur := by
  have : (rows cur gen).map Prod.fst = (List.range (nChunks cur gen)).map (chunkAt cur) := by
    simp [rows, List.map_map, Function.comp_def]
  rw [this, flatten_chunks, List.take_of_length_le (nChunks_cur cur gen)]

/-- **C12 (display, generated).** The pieces shown for the generated expression, put together, are that expression. -/
theorem view_shows_generated (cur gen : Bytes) : ((rows cur gen).map Prod.snd).flatten = gen := by
  have : (rows cur gen).map Prod.snd = (List.range (nChunks cur gen)).map (chunkAt gen) := by
    simp [rows, List.map_map, Function.comp_def]
  rw [this, flatten_chunks, List.take_of_length_le (nChunks_gen cur gen)]

theorem map_fst_eq_map_snd {α : Type} (l : List (α × α)) (h : ∀ r ∈ l, r.1 = r.2) : l.map Prod.fst = l.map Prod.snd := by
  induction l with
  | nil => rfl
  | cons x xs ih =>
    simp only [List.map_cons]
    rw [h x (by simp), ih (fun r hr => h r (by simp [hr]))]

/-- **C12 (display, equality).** All pairs of pieces are equal exactly when the two expressions are equal. -/
theorem view_rows_equal_iff (cur gen : Bytes) : (∀ r ∈ rows cur gen, r.1 = r.2) ↔ cur = gen := by
  constructor
  · intro h
    have h1 := view_shows_current cur gen
    have h2 := view_shows_generated cur gen
    rw [map_fst_eq_map_snd _ h] at h1
    exact h1.symm.trans h2
  · intro h r hr
    subst h
    simp only [rows, List.mem_map, List.mem_range] at hr
    obtain ⟨i, _, rfl⟩ := hr
    rfl

/-! ### the frame -/

/-- pairs of equal pieces are rendered without a frame whatever happened before -/
theorem renderRows_equal_prefix (n : Nat) (pre rest : List (Bytes × Bytes)) (h : ∀ r ∈ pre, r.1 = r.2) (i : Nat) (found : Bool) :
    renderRows n i found (pre ++ rest) = renderRows n i true pre ++ renderRows n (i + pre.length) found rest := by
  induction pre generalizing i with
  | nil => simp [renderRows]
  | cons x xs ih =>
    obtain ⟨c, g⟩ := x
    have hcg : c = g := h (c, g) (by simp)
    subst hcg
    have hx : ∀ r ∈ xs, r.1 = r.2 := fun r hr => h r (by simp [hr])
    simp only [List.cons_append, renderRows, bne_self_eq_false, Bool.and_false, Bool.or_false, Bool.not_true,
      List.length_cons, List.append_assoc]
    rw [ih hx (i + 1)]
    have : i + 1 + xs.length = i + (xs.length + 1) := by omega
    rw [this]

theorem exists_first_failing {α : Type} (P : α → Prop) [DecidablePred P] (l : List α) (h : ¬ ∀ r ∈ l, P r) :
    ∃ pre x post, l = pre ++ x :: post ∧ (∀ r ∈ pre, P r) ∧ ¬ P x := by
  induction l with
  | nil => exact absurd (by simp) h
  | cons a as ih =>
    by_cases ha : P a
    · have : ¬ ∀ r ∈ as, P r := by
        intro hall
        apply h
        intro r hr
        rcases List.mem_cons.mp hr with rfl | hr
        · exact ha
        · exact hall r hr
      obtain ⟨pre, x, post, hl, hpre, hx⟩ := ih this
      refine ⟨a :: pre, x, post, by simp [hl], ?_, hx⟩
      intro r hr
      rcases List.mem_cons.mp hr with rfl | hr
      · exact ha
      · exact hpre r hr
    · exact ⟨[], a, as, rfl, by simp, ha⟩

/-- **C12 (display, first difference).** For two different expressions the pairs of pieces split into a run of equal
    pairs, the first differing pair, and the rest; the display is: the equal pairs without a frame, the differing pair
    framed as "first difference", and every later pair without a frame (rendered as after a frame: `found = true`). -/
theorem view_first_difference (id cur gen : Bytes) (h : cur ≠ gen) :
    ∃ pre c g post, rows cur gen = pre ++ (c, g) :: post ∧ (∀ r ∈ pre, r.1 = r.2) ∧ c ≠ g ∧
      changedText id cur gen =
        b!"Regex of " ++ id ++ b!" has changed!\n" ++
          (renderRows (nChunks cur gen) 0 true pre ++
           renderRow (nChunks cur gen) pre.length true c g ++
           renderRows (nChunks cur gen) (pre.length + 1) true post) ++ b!"\n" := by
  have hne : ¬ ∀ r ∈ rows cur gen, r.1 = r.2 := fun hall => h ((view_rows_equal_iff cur gen).mp hall)
  obtain ⟨pre, ⟨c, g⟩, post, hl, hpre, hx⟩ := exists_first_failing (fun r : Bytes × Bytes => r.1 = r.2) _ hne
  refine ⟨pre, c, g, post, hl, hpre, hx, ?_⟩
  have hcg : (c != g) = true := by simpa using hx
  unfold changedText
  rw [hl, renderRows_equal_prefix _ pre _ hpre 0 false]
  simp [renderRows, hcg]

/-- a pair rendered after the frame (or among equal pairs) carries no frame text: `first = false` -/
theorem renderRows_found (n i : Nat) (rs : List (Bytes × Bytes)) :
    renderRows n i true rs = match rs with
      | [] => []
      | (c, g) :: rest => renderRow n i false c g ++ renderRows n (i + 1) true rest := by
  cases rs with
  | nil => simp [renderRows]
  | cons x xs => obtain ⟨c, g⟩ := x; simp [renderRows]

/-- non-vacuity: 120 and 119 bytes differing in the second piece: three pairs, the second one framed -/
example : (rows (List.replicate 120 'a') (List.replicate 60 'a' ++ 'b' :: List.replicate 58 'a')).length = 3 := by decide +kernel
example : chunkAt (List.replicate 120 'a') 1 ≠ chunkAt (List.replicate 60 'a' ++ 'b' :: List.replicate 58 'a') 1 := by decide +kernel
example : chunkAt (List.replicate 120 'a') 0 = chunkAt (List.replicate 60 'a' ++ 'b' :: List.replicate 58 'a') 0 := by decide +kernel

end Crs.Props

namespace Crs.Props
open Crs Crs.CompareView

/-! ### the standard-output model and the status model agree -/

theorem ruleOut_spec (E : Asm.Engine) (cfg : Asm.Config) (o1 o2 : Parser.Ord) (github : Bool) (t : Cli.Tree) (input id : Bytes) (k : Nat) :
    match Cli.compareRule E cfg o1 o2 t input id k with
    | .error _ => ruleOut E cfg o1 o2 github t input id k = none
    | .ok b => ∃ txt, ruleOut E cfg o1 o2 github t input id k = some (txt, b) := by
  unfold Cli.compareRule ruleOut
  cases h1 : (Cli.runFile E cfg o1 o2 {} (Cli.fsOf t) input).2 with
  | error e => simp
  | ok re =>
    cases h2 : Cli.rulesFileOf t id with
    | none => simp
    | some rp =>
      cases h3 : Cli.lookup rp t with
      | none => simp [h3]
      | some rc =>
        cases h4 : Update.readCurrentRegex rc id k with
        | error e => simp [h3, h4]
        | ok cur =>
          by_cases h : (cur == re) = true
          · simp [h3, h4, h]
          · simp only [Bool.not_eq_true] at h
            cases github <;> simp [h3, h4, h]

/-- **C12 (single rule: what is printed and the status belong together).** The status the display model gives
    `regex compare ARG` is the status of the command model (`C12_compare_single_status` speaks about it). -/
theorem view_compareOut_status (E : Asm.Engine) (cfg : Asm.Config) (o1 o2 : Parser.Ord) (github : Bool) (t : Cli.Tree) (arg : Bytes) :
    (compareOut E cfg o1 o2 github t arg).2 = (Cli.compareCmd E cfg o1 o2 t arg).ok := by
  unfold compareOut Cli.compareCmd
  cases h1 : Update.parseRuleId arg with
  | error e => rfl
  | ok ra =>
    cases h2 : Cli.lookup (Cli.assemblyPath ra.fileName) t with
    | none => simp [h2]
    | some b =>
      have h := ruleOut_spec E cfg o1 o2 github t b ra.id ra.chainOffset
      cases h3 : Cli.compareRule E cfg o1 o2 t b ra.id ra.chainOffset with
      | error e => rw [h3] at h; simp only [] at h; simp [h2, h3, h]
      | ok bb =>
        rw [h3] at h
        obtain ⟨txt, h⟩ := h
        cases bb <;> simp [h2, h3, h]

/-- **C12 (--all: what is printed and the status belong together).** -/
theorem view_walkOut_status (E : Asm.Engine) (cfg : Asm.Config) (o1 o2 : Parser.Ord) (github : Bool) (t : Cli.Tree)
    (fs : List (Bytes × Bytes)) :
    (Cli.compareAll E cfg o1 o2 github t fs).ok =
      (!(walkOut E cfg o1 o2 github t fs).2.2 && !((walkOut E cfg o1 o2 github t fs).2.1 && github)) := by
  induction fs with
  | nil => simp [Cli.compareAll, walkOut]
  | cons x xs ih =>
    obtain ⟨p, b⟩ := x
    unfold Cli.compareAll walkOut
    by_cases hp : Cli.isFormatTarget p = true
    · simp only [hp, if_true]
      cases h1 : Cli.ruleOfFileName (Cli.baseName p) with
      | none => exact ih
      | some o =>
        cases o with
        | none => simp
        | some idk =>
          obtain ⟨id, k⟩ := idk
          have h := ruleOut_spec E cfg o1 o2 github t b id k
          cases h3 : Cli.compareRule E cfg o1 o2 t b id k with
          | error e => rw [h3] at h; simp only [] at h; simp [h, h3]
          | ok bb =>
            rw [h3] at h
            obtain ⟨txt, h⟩ := h
            cases bb
            · simp only [h, h3, ih]
              cases github <;> simp
            · simp only [h, h3, ih]
              cases github <;> simp
    · simp only [hp, Bool.false_eq_true, if_false]
      exact ih

theorem view_compareAllOut_status (E : Asm.Engine) (cfg : Asm.Config) (o1 o2 : Parser.Ord) (github : Bool) (t : Cli.Tree) :
    (compareAllOut E cfg o1 o2 github t).2 = (Cli.compareAll E cfg o1 o2 github t t).ok := by
  rw [view_walkOut_status]
  unfold compareAllOut
  generalize walkOut E cfg o1 o2 github t t = w
  obtain ⟨o, d, f⟩ := w
  cases f <;> cases d <;> cases github <;> simp

/-- **C12 (a change is always reported).** In text mode, when `regex compare ARG` finds the stored operand different
    from the generated regex, its standard output begins with `Regex of ID has changed!`. -/
theorem view_change_is_reported (E : Asm.Engine) (cfg : Asm.Config) (o1 o2 : Parser.Ord) (t : Cli.Tree) (input id : Bytes) (k : Nat)
    (h : Cli.compareRule E cfg o1 o2 t input id k = .ok false) :
    ∃ rest, ruleOut E cfg o1 o2 false t input id k = some (b!"Regex of " ++ id ++ b!" has changed!\n" ++ rest, false) := by
  unfold Cli.compareRule at h
  unfold ruleOut
  cases h1 : (Cli.runFile E cfg o1 o2 {} (Cli.fsOf t) input).2 with
  | error e => simp [h1] at h
  | ok re =>
    cases h2 : Cli.rulesFileOf t id with
    | none => simp [h1, h2] at h
    | some rp =>
      cases h3 : Cli.lookup rp t with
      | none => simp [h1, h2, h3] at h
      | some rc =>
        cases h4 : Update.readCurrentRegex rc id k with
        | error e => simp [h1, h2, h3, h4] at h
        | ok cur =>
          simp only [h1, h2, h3, h4, Except.ok.injEq] at h
          refine ⟨renderRows (nChunks cur re) 0 false (rows cur re) ++ b!"\n", ?_⟩
          simp [h3, h4, h, changedText]

end Crs.Props
