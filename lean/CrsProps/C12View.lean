/-
  C12, the display of `regex compare` (model Crs.CompareView of compareRegex, tied byte for byte by the operations
  `compare.view`, `cli.compareOut`, `cli.compareAllOut`).

  What a reader of the display relies on, for all pairs of expressions of any length:
  * nothing of either expression is hidden: the pieces shown, put together, are the expressions (`view_shows_current`,
    `view_shows_generated`);
  * the pieces are pairwise equal exactly when the expressions are equal (`view_rows_equal_iff`);
  * for two different expressions exactly one pair is framed as "first difference": the first pair whose pieces differ;
    every pair before it consists of equal pieces and no later pair is framed (`view_first_difference`).
-/
import Crs.CompareView

namespace Crs.Props
open Crs Crs.CompareView

/-! ### pieces -/

theorem flatten_chunks (s : Bytes) (n : Nat) :
    ((List.range n).map (chunkAt s)).flatten = s.take (50 * n) := by
  induction n with
  | zero => simp
  | succ n ih =>
    rw [List.range_succ, List.map_append, List.flatten_append, ih]
    simp only [List.map_cons, List.map_nil, List.flatten_cons, List.flatten_nil, List.append_nil, chunkAt]
    rw [show 50 * (n + 1) = 50 * n + 50 by omega, List.take_add]

theorem nChunks_cur (cur gen : Bytes) : cur.length ≤ 50 * nChunks cur gen := by
  unfold nChunks; omega

theorem nChunks_gen (cur gen : Bytes) : gen.length ≤ 50 * nChunks cur gen := by
  unfold nChunks; omega

/-- **C12 (display, current).** The pieces shown for the stored expression, put together, are the stored expression. -/
theorem view_shows_current (cur gen : Bytes) : ((rows cur gen).map Prod.fst).flatten = cur := by
  have : (rows cur gen).map Prod.fst = (List.range (nChunks cur gen)).map (chunkAt cur) := by
    simp [rows, List.map_map, Function.comp_def]
  rw [this, flatten_chunks, List.take_of_length_le (nChunks_cur cur gen)]

/-- **C12 (display, generated).** The pieces shown for the generated expression, put together, are that expression. -/
theorem view_shows_generated (cur gen : Bytes) : ((rows cur gen).map Prod.snd).flatten = gen := by
  have : (rows cur gen).map Prod.snd = (List.range (nChunks cur gen)).map (chunkAt gen) := by
    simp [rows, List.map_map, Function.comp_def]
  rw [this, flatten_chunks, List.take_of_length_le (nChunks_gen cur gen)]

theorem map_fst_eq_map_snd {α : Type} (l : List (α × α)) (h : ∀ r ∈ l, r.1 = r.2) : l.map Prod.fst = l.map Prod.snd := by
  induction l with
  | nil => rfl
  | cons x xs ih =>
    simp only [List.map_cons]
    rw [h x (by simp), ih (fun r hr => h r (by simp [hr]))]

/-- **C12 (display, equality).** All pairs of pieces are equal exactly when the two expressions are equal. -/
theorem view_rows_equal_iff (cur gen : Bytes) : (∀ r ∈ rows cur gen, r.1 = r.2) ↔ cur = gen := by
  constructor
  · intro h
    have h1 := view_shows_current cur gen
    have h2 := view_shows_generated cur gen
    rw [map_fst_eq_map_snd _ h] at h1
    exact h1.symm.trans h2
  · intro h r hr
    subst h
    simp only [rows, List.mem_map, List.mem_range] at hr
    obtain ⟨i, _, rfl⟩ := hr
    rfl

/-! ### the frame -/

/-- pairs of equal pieces are rendered without a frame whatever happened before -/
theorem renderRows_equal_prefix (n : Nat) (pre rest : List (Bytes × Bytes)) (h : ∀ r ∈ pre, r.1 = r.2) (i : Nat) (found : Bool) :
    renderRows n i found (pre ++ rest) = renderRows n i true pre ++ renderRows n (i + pre.length) found rest := by
  induction pre generalizing i with
  | nil => simp [renderRows]
  | cons x xs ih =>
    obtain ⟨c, g⟩ := x
    have hcg : c = g := h (c, g) (by simp)
    subst hcg
    have hx : ∀ r ∈ xs, r.1 = r.2 := fun r hr => h r (by simp [hr])
    simp only [List.cons_append, renderRows, bne_self_eq_false, Bool.and_false, Bool.or_false, Bool.not_true,
      List.length_cons, List.append_assoc]
    rw [ih hx (i + 1)]
    have : i + 1 + xs.length = i + (xs.length + 1) := by omega
    rw [this]

theorem exists_first_failing {α : Type} (P : α → Prop) [DecidablePred P] (l : List α) (h : ¬ ∀ r ∈ l, P r) :
    ∃ pre x post, l = pre ++ x :: post ∧ (∀ r ∈ pre, P r) ∧ ¬ P x := by
  induction l with
  | nil => exact absurd (by simp) h
  | cons a as ih =>
    by_cases ha : P a
    · have : ¬ ∀ r ∈ as, P r := by
        intro hall
        apply h
        intro r hr
        rcases List.mem_cons.mp hr with rfl | hr
        · exact ha
        · exact hall r hr
      obtain ⟨pre, x, post, hl, hpre, hx⟩ := ih this
      refine ⟨a :: pre, x, post, by simp [hl], ?_, hx⟩
      intro r hr
      rcases List.mem_cons.mp hr with rfl | hr
      · exact ha
      · exact hpre r hr
    · exact ⟨[], a, as, rfl, by simp, ha⟩

/-- **C12 (display, first difference).** For two different expressions the pairs of pieces split into a run of equal
    pairs, the first differing pair, and the rest; the display is: the equal pairs without a frame, the differing pair
    framed as "first difference", and every later pair without a frame (rendered as after a frame: `found = true`). -/
theorem view_first_difference (id cur gen : Bytes) (h : cur ≠ gen) :
    ∃ pre c g post, rows cur gen = pre ++ (c, g) :: post ∧ (∀ r ∈ pre, r.1 = r.2) ∧ c ≠ g ∧
      changedText id cur gen =
        b!"Regex of " ++ id ++ b!" has changed!\n" ++
          (renderRows (nChunks cur gen) 0 true pre ++
           renderRow (nChunks cur gen) pre.length true c g ++
           renderRows (nChunks cur gen) (pre.length + 1) true post) ++ b!"\n" := by
  have hne : ¬ ∀ r ∈ rows cur gen, r.1 = r.2 := fun hall => h ((view_rows_equal_iff cur gen).mp hall)
  obtain ⟨pre, ⟨c, g⟩, post, hl, hpre, hx⟩ := exists_first_failing (fun r : Bytes × Bytes => r.1 = r.2) _ hne
  refine ⟨pre, c, g, post, hl, hpre, hx, ?_⟩
  have hcg : (c != g) = true := by simpa using hx
  unfold changedText
  rw [hl, renderRows_equal_prefix _ pre _ hpre 0 false]
  simp [renderRows, hcg]

/-- a pair rendered after the frame (or among equal pairs) carries no frame text: `first = false` -/
theorem renderRows_found (n i : Nat) (rs : List (Bytes × Bytes)) :
    renderRows n i true rs = match rs with
      | [] => []
      | (c, g) :: rest => renderRow n i false c g ++ renderRows n (i + 1) true rest := by
  cases rs with
  | nil => simp [renderRows]
  | cons x xs => obtain ⟨c, g⟩ := x; simp [renderRows]

/-- non-vacuity: 120 and 119 bytes differing in the second piece: three pairs, the second one framed -/
example : (rows (List.replicate 120 'a') (List.replicate 60 'a' ++ 'b' :: List.replicate 58 'a')).length = 3 := by decide +kernel
example : chunkAt (List.replicate 120 'a') 1 ≠ chunkAt (List.replicate 60 'a' ++ 'b' :: List.replicate 58 'a') 1 := by decide +kernel
example : chunkAt (List.replicate 120 'a') 0 = chunkAt (List.replicate 60 'a' ++ 'b' :: List.replicate 58 'a') 0 := by decide +kernel

end Crs.Props
