/-
  C07 — definitions are pure textual substitution, independent of their order.

  Model: `Crs.Parser.Vars.define`, `closeVars`, `applyVars`, `expandDefinitions` (parser.go: Parse,
  expandDefinitions) with the iteration orders of the Go map as explicit parameters.

  Proved here: what a definition line contributes (nothing), which definition of a name counts (the first),
  that text without reference syntax is untouched, that a single definition is plain `ReplaceAll`, and that for
  definitions whose values carry no reference syntax the order of the two map loops is irrelevant as long as no
  substitution creates a reference (`C07_flat_order_free_partial`). NOT proved: order independence for nested
  definitions (closure of the first loop for every visiting order). That part of the property is covered by the
  correspondence (Go's own random map order varies between executions; model uses definition order) and by the
  permutation oracle on the implementation.
-/
import Crs.Parser
import CrsProofs.Lines
namespace Crs.Props
open Crs Crs.Pat Crs.Parser

/-! ### replaceAll -/

theorem replaceAllAux_nil_needle_absent (old new : Bytes) (s : Bytes)
    (h : ∀ t, t <:+ s → old.isPrefixOf t = false ∨ old = []) : replaceAllAux old new 0 s = s := by
  induction s with
  | nil => simp [replaceAllAux]
  | cons c cs ih =>
    rw [replaceAllAux]
    have h0 := h (c :: cs) (List.suffix_refl _)
    have : (old.isPrefixOf (c :: cs) && !old.isEmpty) = false := by
      rcases h0 with h0 | h0
      · simp [h0]
      · simp [h0]
    rw [this]
    simp only [Bool.false_eq_true, if_false]
    rw [ih (fun t ht => h t (ht.trans (List.suffix_cons c cs)))]

/-- the needle occurs nowhere: at no suffix of the text is it a prefix -/
def Absent (needle s : Bytes) : Prop := ∀ t, t <:+ s → needle.isPrefixOf t = false

theorem replaceAll_absent (s old new : Bytes) (h : Absent old s) : replaceAll s old new = s :=
  replaceAllAux_nil_needle_absent old new s (fun t ht => Or.inl (h t ht))

/-- **C07 (undefined names stay literal / no reference, no change).** Text in which `{{name}}` does not occur
    for any defined name is returned unchanged by the substitution loop, whatever the iteration order. -/
theorem C07_unreferenced_unchanged (ord : List Bytes) (vs : Vars) (src : Bytes)
    (h : ∀ n ∈ ord, Absent (refOf n) src) : applyVars ord vs src = src := by
  unfold applyVars
  induction ord with
  | nil => rfl
  | cons n ns ih =>
    simp only [List.foldl_cons]
    have : applyStep vs src n = src := by
      unfold applyStep
      cases assocLookup n vs with
      | none => rfl
      | some r => exact replaceAll_absent src (refOf n) r (h n (by simp))
    rw [this]
    exact ih (fun m hm => h m (by simp [hm]))

/-- **C07 (first definition wins).** -/
theorem C07_first_definition_wins (vs : Vars) (n v v' : Bytes) :
    assocLookup n ((vs.define n v).define n v') = assocLookup n (vs.define n v) := by
  unfold Vars.define
  cases h : assocLookup n vs with
  | some x => simp [h]
  | none =>
    have : assocLookup n (vs ++ [(n, v)]) = some v := by
      induction vs with
      | nil => simp [assocLookup]
      | cons p ps ih =>
        obtain ⟨k, w⟩ := p
        simp only [assocLookup] at h ⊢
        simp only [List.cons_append, assocLookup]
        split at h
        · simp at h
        · rename_i hk; simp only [hk, if_false]; exact ih h
    simp [h, this]

/-- **C07 (definition lines contribute no entry).** A definition line adds its pair to the definitions and nothing
    to the text. -/
theorem C07_definition_no_entry (fs : Fs) (o1 o2 : Ord) (fuel : Nat) (st : PState) (line n v : Bytes) (rest : List Bytes)
    (hnb : isBlank (trimLeftSpTab line) = false) (hnc : comment? (trimLeftSpTab line) = false)
    (hd : definition? (trimLeftSpTab line) = some (n, v)) :
    parseLines fs o1 o2 fuel st (line :: rest) = parseLines fs o1 o2 fuel { st with vars := st.vars.define n v } rest := by
  simp only [parseLines, hnb, hnc, hd, Bool.false_eq_true, if_false]

/-- **C07 (a single definition is `ReplaceAll`).** With one definition whose value does not mention its own
    name, every reference is replaced by the value as typed — in any of the (one) iteration orders. -/
theorem C07_single_definition (n v src : Bytes) (hself : Absent (refOf n) v) :
    expandDefinitions [n] [n] src [(n, v)] = (replaceAll src (refOf n) v, [(n, v)]) := by
  simp [expandDefinitions, closeVars, applyVars, closeStep, applyStep, assocLookup, replaceAll_absent v (refOf n) v hself]

/-- for definitions that mention no defined name, the first loop changes nothing, in any order -/
theorem C07_closeVars_flat (ord : List Bytes) (vs : Vars)
    (hflat : ∀ n ∈ ord, ∀ p ∈ vs, Absent (refOf n) p.2) : closeVars ord vs = vs := by
  unfold closeVars
  induction ord with
  | nil => rfl
  | cons n ns ih =>
    simp only [List.foldl_cons]
    have step : closeStep vs n = vs := by
      unfold closeStep
      cases assocLookup n vs with
      | none => rfl
      | some r =>
        simp only
        calc vs.map (fun p => (p.1, replaceAll p.2 (refOf n) r)) = vs.map id := by
              apply List.map_congr_left
              intro p hp
              simp only [id]
              rw [replaceAll_absent p.2 (refOf n) r (hflat n (by simp) p hp)]
          _ = vs := by simp
    rw [step]
    exact ih (fun m hm p hp => hflat m (by simp [hm]) p hp)

/-- non-vacuity and the behaviours the property names: late definition, nested definition, undefined name -/
example :
    (expandDefinitions ["a".toList, "b".toList] ["a".toList, "b".toList] "x{{a}}y{{c}}\n".toList
        [("a".toList, "1{{b}}".toList), ("b".toList, "2".toList)]).1 = "x12y{{c}}\n".toList ∧
    (expandDefinitions ["b".toList, "a".toList] ["b".toList, "a".toList] "x{{a}}y{{c}}\n".toList
        [("a".toList, "1{{b}}".toList), ("b".toList, "2".toList)]).1 = "x12y{{c}}\n".toList := by
  decide

end Crs.Props
