/-
  C07 — definitions are pure textual substitution, independent of their order.

  Model: `Crs.Parser.Vars.define`, `closeVars`, `applyVars`, `expandDefinitions` (parser.go: Parse,
  expandDefinitions) with the iteration orders of the Go map as explicit parameters.

  Proved here: what a definition line contributes (nothing), which definition of a name counts (the first),
  that text without reference syntax is untouched, that a single definition is plain `ReplaceAll`, and — for
  definitions nested to any depth — that neither the order in which the two map loops visit the names
  (`C07_order_free`) nor the order of the definition lines (`C07_definition_line_order_free`) changes the result,
  and that no reference to a defined name is left (`C07_no_defined_reference_left`).
  `C07_order_free` is stated for texts and values that are token readings (`Crs.Parser.WFToks`: a `{` outside a
  reference is followed by an ordinary character other than `{`; names non-empty, brace-free) of an acyclic table
  (`RankOK`). Outside that domain a substitution can create reference syntax (`{` + `{b}}`), and the result of the
  real code does depend on the map order (`C07_order_matters_when_syntax_is_created`); the correspondence and the
  permutation oracle are what cover the code there.
-/
import Crs.Parser
import CrsProofs.Lines
import CrsProofs.DefTokens
namespace Crs.Props
open Crs Crs.Pat Crs.Parser

/-! ### replaceAll -/

theorem replaceAllAux_nil_needle_absent (old new : Bytes) (s : Bytes)
    (h : ∀ t, t <:+ s → old.isPrefixOf t = false ∨ old = []) : replaceAllAux old new 0 s = s := by
  induction s with
  | nil => simp [replaceAllAux]
  | cons c cs ih =>
    rw [replaceAllAux]
    have h0 := h (c :: cs) (List.suffix_refl _)
    have : (old.isPrefixOf (c :: cs) && !old.isEmpty) = false := by
      rcases h0 with h0 | h0
      · simp [h0]
      · simp [h0]
    rw [this]
    simp only [Bool.false_eq_true, if_false]
    rw [ih (fun t ht => h t (ht.trans (List.suffix_cons c cs)))]

/-- the needle occurs nowhere: at no suffix of the text is it a prefix -/
def Absent (needle s : Bytes) : Prop := ∀ t, t <:+ s → needle.isPrefixOf t = false

theorem replaceAll_absent (s old new : Bytes) (h : Absent old s) : replaceAll s old new = s :=
  replaceAllAux_nil_needle_absent old new s (fun t ht => Or.inl (h t ht))

/-- **C07 (undefined names stay literal / no reference, no change).** Text in which `{{name}}` does not occur
    for any defined name is returned unchanged by the substitution loop, whatever the iteration order. -/
theorem C07_unreferenced_unchanged (ord : List Bytes) (vs : Vars) (src : Bytes)
    (h : ∀ n ∈ ord, Absent (refOf n) src) : applyVars ord vs src = src := by
  unfold applyVars
  induction ord with
  | nil => rfl
  | cons n ns ih =>
    simp only [List.foldl_cons]
    have : applyStep vs src n = src := by
      unfold applyStep
      cases assocLookup n vs with
      | none => rfl
      | some r => exact replaceAll_absent src (refOf n) r (h n (by simp))
    rw [this]
    exact ih (fun m hm => h m (by simp [hm]))

/-- **C07 (first definition wins).** -/
theorem C07_first_definition_wins (vs : Vars) (n v v' : Bytes) :
    assocLookup n ((vs.define n v).define n v') = assocLookup n (vs.define n v) := by
  unfold Vars.define
  cases h : assocLookup n vs with
  | some x => simp [h]
  | none =>
    have : assocLookup n (vs ++ [(n, v)]) = some v := by
      induction vs with
      | nil => simp [assocLookup]
      | cons p ps ih =>
        obtain ⟨k, w⟩ := p
        simp only [assocLookup] at h ⊢
        simp only [List.cons_append, assocLookup]
        split at h
        · simp at h
        · rename_i hk; simp only [hk, if_false]; exact ih h
    simp [h, this]

/-- **C07 (definition lines contribute no entry).** A definition line adds its pair to the definitions and nothing
    to the text. -/
theorem C07_definition_no_entry (fs : Fs) (o1 o2 : Ord) (fuel : Nat) (st : PState) (line n v : Bytes) (rest : List Bytes)
    (hnb : isBlank (trimLeftSpTab line) = false) (hnc : comment? (trimLeftSpTab line) = false)
    (hd : definition? (trimLeftSpTab line) = some (n, v)) :
    parseLines fs o1 o2 fuel st (line :: rest) = parseLines fs o1 o2 fuel { st with vars := st.vars.define n v } rest := by
  simp only [parseLines, hnb, hnc, hd, Bool.false_eq_true, if_false]

/-- **C07 (a single definition is `ReplaceAll`).** With one definition whose value does not mention its own
    name, every reference is replaced by the value as typed — in any of the (one) iteration orders. -/
theorem C07_single_definition (n v src : Bytes) (hself : Absent (refOf n) v) :
    expandDefinitions [n] [n] src [(n, v)] = (replaceAll src (refOf n) v, [(n, v)]) := by
  simp [expandDefinitions, closeVars, applyVars, closeStep, applyStep, assocLookup, replaceAll_absent v (refOf n) v hself]

/-- for definitions that mention no defined name, the first loop changes nothing, in any order -/
theorem C07_closeVars_flat (ord : List Bytes) (vs : Vars)
    (hflat : ∀ n ∈ ord, ∀ p ∈ vs, Absent (refOf n) p.2) : closeVars ord vs = vs := by
  unfold closeVars
  induction ord with
  | nil => rfl
  | cons n ns ih =>
    simp only [List.foldl_cons]
    have step : closeStep vs n = vs := by
      unfold closeStep
      cases assocLookup n vs with
      | none => rfl
      | some r =>
        simp only
        calc vs.map (fun p => (p.1, replaceAll p.2 (refOf n) r)) = vs.map id := by
              apply List.map_congr_left
              intro p hp
              simp only [id]
              rw [replaceAll_absent p.2 (refOf n) r (hflat n (by simp) p hp)]
          _ = vs := by simp
    rw [step]
    exact ih (fun m hm p hp => hflat m (by simp [hm]) p hp)

/-! ### nested definitions: no order matters -/

/-- **C07 (map iteration order, nested definitions).** For an acyclic table of definitions nested to any depth, and
    any text, the two loops of `expandDefinitions` give the same text and the same table whatever order the Go map
    yields the names in (`o1`, `o1'` for the first loop — every defined name is visited —, `o2`, `o2'` for the
    second). -/
theorem C07_order_free (rank : Bytes → Nat) (z : TVars) (ts : List Tok) (o1 o1' o2 o2' : List Bytes)
    (hz : WFVars z) (hts : WFToks ts) (hr : RankOK rank z)
    (hn1 : ∀ n ∈ o1, WFName n) (hn2 : ∀ n ∈ o2, WFName n)
    (hall : ∀ k ∈ z.map Prod.fst, k ∈ o1)
    (p1 : o1.Perm o1') (p2 : o2.Perm o2') :
    expandDefinitions o1 o2 (render ts) (renderVars z) = expandDefinitions o1' o2' (render ts) (renderVars z) := by
  unfold expandDefinitions
  obtain ⟨e1, w1⟩ := closeVars_render o1 z hn1 hz
  obtain ⟨e1', _⟩ := closeVars_render o1' z (fun n hn => hn1 n (p1.mem_iff.mpr hn)) hz
  simp only
  rw [e1, e1', ← closeVarsT_perm rank z hr p1]
  rw [applyVars_render o2 _ ts hn2 w1 hts,
      applyVars_render o2' _ ts (fun n hn => hn2 n (p2.mem_iff.mpr hn)) w1 hts,
      applyVarsT_perm _ (closeVarsT_closed rank o1 z hr hall) ts p2]

/-- **C07 (pure substitution: nothing defined is left).** When both loops visit every defined name, the resulting text
    contains no reference to a defined name; undefined references stay as typed. -/
theorem C07_no_defined_reference_left (rank : Bytes → Nat) (z : TVars) (ts : List Tok) (o1 o2 : List Bytes)
    (hz : WFVars z) (hts : WFToks ts) (hr : RankOK rank z)
    (hn1 : ∀ n ∈ o1, WFName n) (hn2 : ∀ n ∈ o2, WFName n)
    (hall1 : ∀ k ∈ z.map Prod.fst, k ∈ o1) (hall2 : ∀ k ∈ z.map Prod.fst, k ∈ o2) :
    ∃ out : List Tok, (expandDefinitions o1 o2 (render ts) (renderVars z)).1 = render out ∧
      ∀ k ∈ z.map Prod.fst, Tok.ref k ∉ out := by
  unfold expandDefinitions
  obtain ⟨e1, w1⟩ := closeVars_render o1 z hn1 hz
  refine ⟨applyVarsT o2 (closeVarsT o1 z) ts, ?_, ?_⟩
  · simp only
    rw [e1, applyVars_render o2 _ ts hn2 w1 hts]
  · intro k hk
    have hc := closeVarsT_closed rank o1 z hr hall1
    have hk' : k ∈ (closeVarsT o1 z).map Prod.fst := by rw [closeVarsT_keys]; exact hk
    exact applyVarsT_noDefinedRefs _ hc o2 [] ts (fun _ hm => by simp at hm) k (by simp [hall2 k hk]) hk'

/-- non-vacuity: three definitions nested two deep, a regex quantifier `{2,3}` in a value, an undefined reference in
    the text; every visiting order gives `x[0-9]{2,3}y!{{u}}` -/
example :
    let z : TVars := [(b!"a", [.lit 'x', .ref b!"b", .ref b!"c"]), (b!"b", [.lit '[', .lit '0', .lit '-', .lit '9', .lit ']', .lit '{', .lit '2', .lit ',', .lit '3', .lit '}']),
                      (b!"c", [.lit 'y', .lit '!'])]
    let rank : Bytes → Nat := fun n => if n = b!"a" then 1 else 0
    WFVars z ∧ RankOK rank z ∧
    (expandDefinitions [b!"a", b!"b", b!"c"] [b!"c", b!"a", b!"b"] (render [.ref b!"a", .ref b!"u"]) (renderVars z)).1 = b!"x[0-9]{2,3}y!{{u}}" ∧
    (expandDefinitions [b!"c", b!"b", b!"a"] [b!"a", b!"b", b!"c"] (render [.ref b!"a", .ref b!"u"]) (renderVars z)).1 = b!"x[0-9]{2,3}y!{{u}}" := by
  refine ⟨?_, ?_, by decide +kernel, by decide +kernel⟩
  · intro p hp
    simp only [List.mem_cons, List.mem_nil_iff, or_false] at hp
    rcases hp with rfl | rfl | rfl <;> simp [WFToks, WFName]
  · intro p hp m hm hk
    simp only [List.mem_cons, List.mem_nil_iff, or_false] at hp
    rcases hp with rfl | rfl | rfl <;> simp at hm <;> rcases hm with rfl | rfl <;> decide

/-- outside the domain of `C07_order_free`: a value that ends in `{` creates reference syntax when it is pasted in,
    and then the visiting order of the second loop decides the result — in the model as in the code -/
theorem C07_order_matters_when_syntax_is_created :
    (expandDefinitions [b!"a", b!"b"] [b!"a", b!"b"] b!"{{a}}{b}}" [(b!"a", b!"{"), (b!"b", b!"Z")]).1 ≠
    (expandDefinitions [b!"a", b!"b"] [b!"b", b!"a"] b!"{{a}}{b}}" [(b!"a", b!"{"), (b!"b", b!"Z")]).1 := by
  decide +kernel

/-! ### the order of the definition lines -/

theorem assocLookup_mem {k v : Bytes} {vs : Vars} (h : assocLookup k vs = some v) : (k, v) ∈ vs := by
  induction vs with
  | nil => simp [assocLookup] at h
  | cons p vs ih =>
    obtain ⟨k', w⟩ := p
    simp only [assocLookup] at h
    by_cases hk : (k' == k) = true
    · simp only [hk, if_true, Option.some.injEq] at h
      have : k' = k := by simpa using hk
      subst this; subst h; simp
    · have hk' : (k' == k) = false := by simpa using hk
      simp only [hk', Bool.false_eq_true, if_false] at h
      exact List.mem_cons_of_mem _ (ih h)

theorem assocLookup_of_mem {k v : Bytes} {vs : Vars} (hn : (vs.map Prod.fst).Nodup) (h : (k, v) ∈ vs) :
    assocLookup k vs = some v := by
  induction vs with
  | nil => simp at h
  | cons p vs ih =>
    obtain ⟨k', w⟩ := p
    simp only [List.map_cons, List.nodup_cons] at hn
    simp only [List.mem_cons, Prod.mk.injEq] at h
    simp only [assocLookup]
    rcases h with ⟨rfl, rfl⟩ | h
    · simp
    · have : k' ≠ k := by
        intro e; subst e
        exact hn.1 (List.mem_map.mpr ⟨(k', v), h, rfl⟩)
      have hk' : (k' == k) = false := by simpa using this
      simp only [hk', Bool.false_eq_true, if_false]
      exact ih hn.2 h

theorem assocLookup_perm {vs vs' : Vars} (p : vs.Perm vs') (hn : (vs.map Prod.fst).Nodup) (k : Bytes) :
    assocLookup k vs = assocLookup k vs' := by
  have hn' : (vs'.map Prod.fst).Nodup := (p.map Prod.fst).nodup hn
  cases h : assocLookup k vs with
  | some v => exact (assocLookup_of_mem hn' (p.mem_iff.mp (assocLookup_mem h))).symm
  | none =>
    cases h' : assocLookup k vs' with
    | none => rfl
    | some v =>
      have := assocLookup_of_mem hn (p.mem_iff.mpr (assocLookup_mem h'))
      rw [h] at this; exact absurd this (by simp)

theorem closeStep_keys (vs : Vars) (n : Bytes) : (closeStep vs n).map Prod.fst = vs.map Prod.fst := by
  unfold closeStep
  cases assocLookup n vs with
  | none => rfl
  | some r => simp [List.map_map, Function.comp_def]

theorem closeVars_perm_table (ord : List Bytes) {vs vs' : Vars} (p : vs.Perm vs') (hn : (vs.map Prod.fst).Nodup) :
    (closeVars ord vs).Perm (closeVars ord vs') ∧ ((closeVars ord vs).map Prod.fst).Nodup := by
  unfold closeVars
  induction ord generalizing vs vs' with
  | nil => exact ⟨p, hn⟩
  | cons n ns ih =>
    simp only [List.foldl_cons]
    apply ih
    · unfold closeStep
      rw [← assocLookup_perm p hn n]
      cases assocLookup n vs with
      | none => exact p
      | some r => exact p.map _
    · rw [closeStep_keys]; exact hn

theorem applyVars_congr (ord : List Bytes) (vs vs' : Vars) (h : ∀ k, assocLookup k vs = assocLookup k vs') (src : Bytes) :
    applyVars ord vs src = applyVars ord vs' src := by
  unfold applyVars
  induction ord generalizing src with
  | nil => rfl
  | cons n ns ih =>
    simp only [List.foldl_cons]
    have : applyStep vs src n = applyStep vs' src n := by unfold applyStep; rw [h n]
    rw [this, ih]

/-- **C07 (order of the definition lines).** Writing the definitions (of distinct names) in another order — before
    or after their uses makes no difference to the table, `C07_definition_no_entry` — gives the same text, for any
    values whatsoever and any visiting orders. -/
theorem C07_definition_line_order_free (o1 o2 : List Bytes) (src : Bytes) {vs vs' : Vars} (p : vs.Perm vs')
    (hn : (vs.map Prod.fst).Nodup) :
    (expandDefinitions o1 o2 src vs).1 = (expandDefinitions o1 o2 src vs').1 := by
  unfold expandDefinitions
  simp only
  obtain ⟨pc, hc⟩ := closeVars_perm_table o1 p hn
  exact applyVars_congr o2 _ _ (fun k => assocLookup_perm pc hc k) src

/-- non-vacuity and the behaviours the property names: late definition, nested definition, undefined name -/
example :
    (expandDefinitions ["a".toList, "b".toList] ["a".toList, "b".toList] "x{{a}}y{{c}}\n".toList
        [("a".toList, "1{{b}}".toList), ("b".toList, "2".toList)]).1 = "x12y{{c}}\n".toList ∧
    (expandDefinitions ["b".toList, "a".toList] ["b".toList, "a".toList] "x{{a}}y{{c}}\n".toList
        [("a".toList, "1{{b}}".toList), ("b".toList, "2".toList)]).1 = "x12y{{c}}\n".toList := by
  decide

end Crs.Props
