import Crs.Parser
namespace Crs.Props
theorem C07_placeholder : True := trivial
end Crs.Props
