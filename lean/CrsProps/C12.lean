import Crs.Update
namespace Crs.Props
theorem C12_placeholder : True := trivial
end Crs.Props
