/-
  C12 — after update, compare reports the rule as unchanged, and vice versa.

  Model: `Crs.Update.updateRegex`, `readCurrentRegex`, `compareRegex`.
-/
import Crs.Update
import CrsProofs.Update
import CrsProps.C11
namespace Crs.Props
open Crs Crs.Update

/-- the rewritten operand line is classified like the old one by the `SecRule` test that counts chained rules: true
    whenever the keyword `SecRule` stands on the operand line itself (the usual layout), whatever the regex contains.
    (The other test of the lookup, `id:R`, needs no such condition any more: text inside an operand is not an id —
    repaired defect D27.) -/
def KeepsClass (oldLine newLine : Bytes) : Prop :=
  contains secRule newLine = contains secRule oldLine

/-- an operand line is never the id line, before and after the operand is replaced -/
theorem isIdLine_operand_line (id line pre old post r : Bytes) (h : splitOperand line = some (pre, old, post)) :
    isIdLine id (pre ++ r ++ post) = isIdLine id (pre ++ old ++ post) := by
  obtain ⟨hl, _, _⟩ := splitOperand_shape line pre old post h
  have h1 := splitOperand_rebuild line pre old post r h
  have h2 : splitOperand (pre ++ old ++ post) = some (pre, old, post) := by rw [← hl]; exact h
  unfold isIdLine
  rw [h1, h2]
  simp

/-- **C12 (round trip).** After a successful update with a one-line regex `r`, reading the operand of the
    same rule gives `r` back byte for byte — whatever `r` contains (quotes, `"@rx `, `" \`) — provided
    the rewritten line is still classified like before (`KeepsClass`). -/
theorem C12_roundtrip (c id : Bytes) (k : Nat) (r c' : Bytes) (h : updateRegex c id k r = .ok c') (hr : '\n' ∉ r)
    (hk : ∀ (i : Nat) (pre old post : Bytes), (splitNl c)[i]? = some (pre ++ old ++ post) → KeepsClass (pre ++ old ++ post) (pre ++ r ++ post)) :
    readCurrentRegex c' id k = .ok r := by
  -- unfold the update
  have h0 := h
  unfold updateRegex at h
  simp only at h
  split at h
  · simp at h
  · rename_i i hi
    split at h
    · simp at h
    · rename_i line hline
      split at h
      · simp at h
      · rename_i pre old post hop
        simp only [Except.ok.injEq] at h
        obtain ⟨hl, _, _⟩ := splitOperand_shape line pre old post hop
        have hline' : (splitNl c)[i]? = some (pre ++ old ++ post) := by rw [hline, hl]
        obtain ⟨i', pre', old', post', hi', hsplit, _⟩ := C11_lines c id k r c' h0 hr
        -- the lines of the new file
        have hlines : splitNl c' = setAt (splitNl c) i (pre ++ r ++ post) := by
          rw [← h]
          have hmem : (pre ++ old ++ post) ∈ splitNl c := List.mem_of_getElem? hline'
          have hno := splitNl_lines_noNl c _ hmem
          apply splitNl_joinNl
          · intro e
            have := setAt_length (splitNl c) i (pre ++ r ++ post)
            rw [e] at this
            exact splitNl_ne_nil c (List.length_eq_zero_iff.mp this.symm)
          · intro l hl'
            rcases setAt_mem _ _ _ _ hl' with rfl | hl'
            · intro hm
              simp only [List.mem_append] at hm hno
              rcases hm with (hm | hm) | hm
              · exact hno (Or.inl (Or.inl hm))
              · exact hr hm
              · exact hno (Or.inr hm)
            · exact splitNl_lines_noNl c l hl'
        have hk2 := hk i pre old post hline'
        have hk1 := isIdLine_operand_line id line pre old post r hop
        unfold readCurrentRegex
        simp only
        rw [hlines, targetIndex_setAt id k 0 (splitNl c) i _ _ hline' hk1 hk2, hi]
        simp only
        have hlt : i < (splitNl c).length := by
          have := List.getElem?_eq_some_iff.mp hline'
          exact this.1
        rw [setAt_getElem?_same _ _ _ hlt]
        simp only
        rw [splitOperand_rebuild line pre old post r hop]

/-- **C12 (second update is a no-op).** -/
theorem C12_second_update_noop (c id : Bytes) (k : Nat) (r c' : Bytes) (h : updateRegex c id k r = .ok c') (hr : '\n' ∉ r)
    (hk : ∀ (i : Nat) (pre old post : Bytes), (splitNl c)[i]? = some (pre ++ old ++ post) → KeepsClass (pre ++ old ++ post) (pre ++ r ++ post)) :
    updateRegex c' id k r = .ok c' := by
  have h0 := h
  unfold updateRegex at h
  simp only at h
  split at h
  · simp at h
  · rename_i i hi
    split at h
    · simp at h
    · rename_i line hline
      split at h
      · simp at h
      · rename_i pre old post hop
        simp only [Except.ok.injEq] at h
        obtain ⟨hl, _, _⟩ := splitOperand_shape line pre old post hop
        have hline' : (splitNl c)[i]? = some (pre ++ old ++ post) := by rw [hline, hl]
        have hlines : splitNl c' = setAt (splitNl c) i (pre ++ r ++ post) := by
          rw [← h]
          have hmem : (pre ++ old ++ post) ∈ splitNl c := List.mem_of_getElem? hline'
          have hno := splitNl_lines_noNl c _ hmem
          apply splitNl_joinNl
          · intro e
            have := setAt_length (splitNl c) i (pre ++ r ++ post)
            rw [e] at this
            exact splitNl_ne_nil c (List.length_eq_zero_iff.mp this.symm)
          · intro l hl'
            rcases setAt_mem _ _ _ _ hl' with rfl | hl'
            · intro hm
              simp only [List.mem_append] at hm hno
              rcases hm with (hm | hm) | hm
              · exact hno (Or.inl (Or.inl hm))
              · exact hr hm
              · exact hno (Or.inr hm)
            · exact splitNl_lines_noNl c l hl'
        have hk2 := hk i pre old post hline'
        have hk1 := isIdLine_operand_line id line pre old post r hop
        have hlt : i < (splitNl c).length := (List.getElem?_eq_some_iff.mp hline').1
        unfold updateRegex
        simp only
        rw [hlines, targetIndex_setAt id k 0 (splitNl c) i _ _ hline' hk1 hk2, hi]
        simp only
        rw [setAt_getElem?_same _ _ _ hlt]
        simp only
        rw [splitOperand_rebuild line pre old post r hop]
        simp only
        -- replacing line i twice by the same text
        have := setAt_setAt (splitNl c) i (pre ++ r ++ post)
        rw [this, ← h]

/-- **C12 (compare).** The verdict is byte equality of the stored operand and the generated regex: "unchanged"
    exactly when they are equal; one differing byte gives "changed". -/
theorem C12_compare_iff (generated current : Bytes) : compareRegex generated current = true ↔ current = generated := by
  simp [compareRegex]

/-- update followed by compare: the rule is reported as unchanged -/
theorem C12_update_then_compare (c id : Bytes) (k : Nat) (r c' : Bytes) (h : updateRegex c id k r = .ok c') (hr : '\n' ∉ r)
    (hk : ∀ (i : Nat) (pre old post : Bytes), (splitNl c)[i]? = some (pre ++ old ++ post) → KeepsClass (pre ++ old ++ post) (pre ++ r ++ post)) :
    ∃ cur, readCurrentRegex c' id k = .ok cur ∧ compareRegex r cur = true :=
  ⟨r, C12_roundtrip c id k r c' h hr hk, by simp [compareRegex]⟩

end Crs.Props
