/-
  C11 — update rewrites only the addressed rule's @rx operand.

  Model: `Crs.Update.updateRegex` (cmd/regex_update.go: updateRegex; regex/definitions.go: RuleRxRegex,
  SecRuleRegex) on the bytes of one rules file.
-/
import Crs.Update
import CrsProofs.Update
namespace Crs.Props
open Crs Crs.Update

/-- **C11 (frame).** A successful update changes exactly one line `i` of the file (lines as separated by
    `\n`; carriage returns, the final newline or its absence are part of the untouched bytes), and on that
    line exactly the text between the first `"@rx ` / `"!@rx ` and the last `" \`: everything before the
    operand and everything after it is kept. -/
theorem C11_frame (c id : Bytes) (k : Nat) (r c' : Bytes) (h : updateRegex c id k r = .ok c') :
    ∃ i pre old post,
      (splitNl c)[i]? = some (pre ++ old ++ post) ∧
      (∃ x, pre = x ++ rxA ∨ pre = x ++ rxB) ∧ hasPrefix closeQ post = true ∧
      c' = joinNl (setAt (splitNl c) i (pre ++ r ++ post)) ∧
      (∀ j, j ≠ i → (setAt (splitNl c) i (pre ++ r ++ post))[j]? = (splitNl c)[j]?) := by
  unfold updateRegex at h
  simp only at h
  split at h
  · simp at h
  · rename_i i hi
    split at h
    · simp at h
    · rename_i line hline
      split at h
      · simp at h
      · rename_i pre old post hop
        simp only [Except.ok.injEq] at h
        obtain ⟨hl, hx, hp⟩ := splitOperand_shape line pre old post hop
        exact ⟨i, pre, old, post, by rw [hline, hl], hx, hp, h.symm, fun j hj => setAt_getElem?_other _ _ _ _ hj⟩

/-- when the new regex is a single line, the result split at `\n` is the old list of lines with line `i`
    replaced: no line is added, removed or moved, and joining them loses nothing (`joinNl ∘ splitNl = id`) -/
theorem C11_lines (c id : Bytes) (k : Nat) (r c' : Bytes) (h : updateRegex c id k r = .ok c') (hr : '\n' ∉ r) :
    ∃ i pre old post, (splitNl c)[i]? = some (pre ++ old ++ post) ∧
      splitNl c' = setAt (splitNl c) i (pre ++ r ++ post) ∧ (splitNl c').length = (splitNl c).length := by
  obtain ⟨i, pre, old, post, hi, _, _, hc, _⟩ := C11_frame c id k r c' h
  refine ⟨i, pre, old, post, hi, ?_, ?_⟩
  · rw [hc]
    have hmem : (pre ++ old ++ post) ∈ splitNl c := List.mem_of_getElem? hi
    have hno := splitNl_lines_noNl c _ hmem
    apply splitNl_joinNl
    · intro e
      have := setAt_length (splitNl c) i (pre ++ r ++ post)
      rw [e] at this
      exact splitNl_ne_nil c (List.length_eq_zero_iff.mp this.symm)
    · intro l hl
      rcases setAt_mem _ _ _ _ hl with rfl | hl
      · intro hm
        simp only [List.mem_append] at hm hno
        rcases hm with (hm | hm) | hm
        · exact hno (Or.inl (Or.inl hm))
        · exact hr hm
        · exact hno (Or.inr hm)
      · exact splitNl_lines_noNl c l hl
  · rw [hc]
    have hmem : (pre ++ old ++ post) ∈ splitNl c := List.mem_of_getElem? hi
    have hno := splitNl_lines_noNl c _ hmem
    rw [splitNl_joinNl]
    · exact setAt_length _ _ _
    · intro e
      have := setAt_length (splitNl c) i (pre ++ r ++ post)
      rw [e] at this
      exact splitNl_ne_nil c (List.length_eq_zero_iff.mp this.symm)
    · intro l hl
      rcases setAt_mem _ _ _ _ hl with rfl | hl
      · intro hm
        simp only [List.mem_append] at hm hno
        rcases hm with (hm | hm) | hm
        · exact hno (Or.inl (Or.inl hm))
        · exact hr hm
        · exact hno (Or.inr hm)
      · exact splitNl_lines_noNl c l hl

/-- **C11 (which line).** In a file in CRS layout — the first line that mentions `id:R` outside an `@rx` operand is line `n ≥ 1` —
    the operand line for chain offset 0 is line `n - 1`, the SecRule line of rule R. -/
theorem C11_target_rule_line (id : Bytes) (ls : List Bytes) (n : Nat) (hn : n < ls.length) (hpos : 0 < n)
    (hfirst : ∀ j, j < n → ∀ l, ls[j]? = some l → isIdLine id l = false)
    (hid : ∀ l, ls[n]? = some l → isIdLine id l = true) (base : Nat) :
    targetIndex id 0 base ls = .ok (base + n - 1) := by
  induction ls generalizing n base with
  | nil => simp at hn
  | cons l ls ih =>
    cases n with
    | zero => exact absurd hpos (by omega)
    | succ m =>
      have h0 : isIdLine id l = false := hfirst 0 (by omega) l rfl
      simp only [targetIndex, h0, Bool.false_eq_true, if_false]
      cases m with
      | zero =>
        -- the id line is the next one
        cases ls with
        | nil => simp at hn
        | cons l1 ls1 =>
          have h1 : isIdLine id l1 = true := hid l1 rfl
          rw [targetIndex, h1]
          simp
      | succ m' =>
        have := ih (m' + 1) (by simpa using hn) (by omega)
          (fun j hj l' hl' => hfirst (j + 1) (by omega) l' (by simpa using hl'))
          (fun l' hl' => hid l' (by simpa using hl')) (base + 1)
        rw [this]
        congr 1
        omega

/-- for a chain offset `k ≥ 1` the operand line is a line containing `SecRule` -/
theorem C11_target_chained (id : Bytes) (k : Nat) (hk : 0 < k) (ls : List Bytes) (base i : Nat)
    (h : targetIndex id k base ls = .ok i) : ∃ l, ls[i - base]? = some l ∧ contains secRule l = true ∧ base < i := by
  induction ls generalizing base with
  | nil => simp [targetIndex] at h
  | cons l ls ih =>
    simp only [targetIndex] at h
    split at h
    · have hk' : (k == 0) = false := by simp; omega
      simp only [hk', Bool.false_eq_true, if_false] at h
      -- search among the following lines
      have key : ∀ (k : Nat) (hk : 0 < k) (b : Nat) (xs : List Bytes) (i : Nat), findChained k b xs = some i →
          ∃ l, xs[i - b]? = some l ∧ contains secRule l = true ∧ b ≤ i := by
        intro k hk b xs
        induction xs generalizing k b with
        | nil => intro i h; simp [findChained] at h
        | cons x xs ihx =>
          intro i h
          simp only [findChained] at h
          split at h
          · rename_i hs
            split at h
            · simp only [Option.some.injEq] at h; subst h; exact ⟨x, by simp, hs, Nat.le_refl _⟩
            · rename_i hk1
              have hk1' : k ≠ 1 := by simpa using hk1
              obtain ⟨l', h1, h2, h3⟩ := ihx (k - 1) (by omega) (b + 1) i h
              refine ⟨l', ?_, h2, by omega⟩
              have : i - b = (i - (b + 1)) + 1 := by omega
              rw [this]; simpa using h1
          · obtain ⟨l', h1, h2, h3⟩ := ihx k hk (b + 1) i h
            refine ⟨l', ?_, h2, by omega⟩
            have : i - b = (i - (b + 1)) + 1 := by omega
            rw [this]; simpa using h1
      split at h
      · rename_i j hj
        simp only [Except.ok.injEq] at h
        subst h
        obtain ⟨l', h1, h2, h3⟩ := key k hk (base + 1) ls j hj
        refine ⟨l', ?_, h2, by omega⟩
        have : j - base = (j - (base + 1)) + 1 := by omega
        rw [this]; simpa using h1
      · simp at h
    · obtain ⟨l', h1, h2, h3⟩ := ih (base + 1) h
      refine ⟨l', ?_, h2, by omega⟩
      have : i - base = (i - (base + 1)) + 1 := by omega
      rw [this]; simpa using h1

/-- non-vacuity: a two-rule file with CRLF line ends and no final newline; only the operand of rule 942110 changes -/
def exampleRules : Bytes :=
  "SecRule ARGS \"@rx a\" \\\r\n    \"id:942100\"\r\nSecRule ARGS \"!@rx old\\\"x\" \\\r\n    \"id:942110,\\\r\n    phase:2\"".toList
example : updateRegex exampleRules "942110".toList 0 "n\\\"ew".toList =
    .ok "SecRule ARGS \"@rx a\" \\\r\n    \"id:942100\"\r\nSecRule ARGS \"!@rx n\\\"ew\" \\\r\n    \"id:942110,\\\r\n    phase:2\"".toList := by
  decide +kernel

end Crs.Props
