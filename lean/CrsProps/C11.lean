import Crs.Update
namespace Crs.Props
theorem C11_placeholder : True := trivial
end Crs.Props
