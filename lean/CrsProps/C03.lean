import Crs.Parser
namespace Crs.Props
theorem C03_placeholder : True := trivial
end Crs.Props
