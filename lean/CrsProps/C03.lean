/-
  C03 — same files and configuration always give byte-identical output.

  The model is a function: given the same bytes it returns the same bytes. What could make the *code* differ
  from run to run is hash-map iteration order; every `range` over a map in the modelled packages is either
  parameterised in the model by an explicit order (`Parser.Ord`) or shown here not to matter:

  * `parseLine` ranges over the map of directive patterns: the recognisers are pairwise disjoint
    (`C03_classification_unambiguous`), so the order in which they are tried is irrelevant;
  * `complete` ranges over the flag set: `C02_flags_order_free`;
  * `buildIncludeExceptString` ranges over the line map and sorts by index: `C03_include_except_order_free` (the
    indices are pairwise distinct, so every iteration order and every sorting algorithm give the model's
    `dedupLast`/`filter`; C06);
  * `expandDefinitions` ranges over the definitions map: since the repair of D28 the map is ranged over only to collect
    the names, which are then sorted — the visiting order of both loops is a function of the set of names
    (`C03_definitions_visiting_order_fixed`) — and to rewrite every value, entry by entry (a `map`; C07
    `closeVars_perm_table`). Before the repair the visiting order was the map's, and on definitions whose
    substitution creates reference syntax the output depended on it (D28, `C07_order_matters_when_syntax_is_created`);
    where no syntax is created every order gives the same result (`C07_order_free`).

  The list of map `range` sites is extracted from /repo's source on every run and compared with this list.
-/
import Crs.Parser
import CrsProofs.Lines
import CrsProps.C02
import CrsProofs.SortPerm
import CrsProofs.SortNames
namespace Crs.Props
open Crs Crs.Pat Crs.Parser

/-- which of the seven directive patterns of `parseLine` claim the (left-trimmed) line -/
def claims (l : Bytes) : List String :=
  (if comment? l then ["comment"] else []) ++
  (if (include? l).isSome then ["include"] else []) ++
  (if (includeExcept? l).isSome then ["include-except"] else []) ++
  (if (definition? l).isSome then ["definition"] else []) ++
  (if (flags? l).isSome then ["flags"] else []) ++
  (if (prefix? l).isSome then ["prefix"] else []) ++
  (if (suffix? l).isSome then ["suffix"] else [])

private theorem dropWs_of_hash (r : Bytes) : dropWs ('#' :: r) = '#' :: r := by
  simp [dropWs, List.dropWhile, isWs]

private theorem stripPrefix_marker_gt (l r : Bytes) (h : stripPrefix? startMarker l = some r) : l = b!"##!>" ++ r :=
  (stripPrefix?_some_iff _ _ _).mp h

private theorem comment_false_of (c : Char) (r : Bytes) (hc : c = '^' ∨ c = '$' ∨ c = '+' ∨ c = '>' ∨ c = '<' ∨ c = '=') :
    comment? ('#' :: '#' :: '!' :: c :: r) = false := by
  unfold comment?
  rw [dropWs_of_hash]
  rcases hc with rfl | rfl | rfl | rfl | rfl | rfl <;> simp [marker, stripPrefix?]

private theorem valueLine_shape (ch : Char) (l v : Bytes) (h : valueLine? ch l = some v) : ∃ r, l = '#' :: '#' :: '!' :: ch :: r := by
  unfold valueLine? at h
  split at h
  · simp at h
  · rename_i r hr
    exact ⟨r, by have := (stripPrefix?_some_iff _ _ _).mp hr; simpa [marker] using this⟩

private theorem gt_shape_of_include (l : Bytes) (h : (include? l).isSome) : ∃ r, l = '#' :: '#' :: '!' :: '>' :: r := by
  unfold include? at h
  split at h
  · simp at h
  · rename_i r hr; exact ⟨r, by have := stripPrefix_marker_gt l r hr; simpa using this⟩

private theorem gt_shape_of_includeExcept (l : Bytes) (h : (includeExcept? l).isSome) : ∃ r, l = '#' :: '#' :: '!' :: '>' :: r := by
  unfold includeExcept? at h
  split at h
  · simp at h
  · rename_i r hr; exact ⟨r, by have := stripPrefix_marker_gt l r hr; simpa using this⟩

private theorem gt_shape_of_definition (l : Bytes) (h : (definition? l).isSome) : ∃ r, l = '#' :: '#' :: '!' :: '>' :: r := by
  unfold definition? at h
  split at h
  · simp at h
  · rename_i r hr; exact ⟨r, by have := stripPrefix_marker_gt l r hr; simpa using this⟩

/-- the keyword that follows `##!>` (after white space) decides among include / include-except / define -/
private theorem include_kw (r : Bytes) (h : (include? ('#' :: '#' :: '!' :: '>' :: r)).isSome) :
    ∃ c t, stripPrefix? b!"include" (dropWs r) = some (c :: t) ∧ isWs c = true := by
  unfold include? at h
  have : stripPrefix? startMarker ('#' :: '#' :: '!' :: '>' :: r) = some r := by simp [startMarker, stripPrefix?]
  rw [this] at h
  simp only at h
  split at h
  · simp at h
  · rename_i r1 hr1
    split at h
    · simp at h
    · rename_i c t
      split at h
      · simp at h
      · rename_i hc
        exact ⟨c, t, hr1, by simpa using hc⟩

private theorem includeExcept_kw (r : Bytes) (h : (includeExcept? ('#' :: '#' :: '!' :: '>' :: r)).isSome) :
    ∃ t, stripPrefix? b!"include-except" (dropWs r) = some t := by
  unfold includeExcept? at h
  have : stripPrefix? startMarker ('#' :: '#' :: '!' :: '>' :: r) = some r := by simp [startMarker, stripPrefix?]
  rw [this] at h
  simp only at h
  split at h
  · simp at h
  · rename_i r1 hr1; exact ⟨r1, hr1⟩

private theorem definition_kw (r : Bytes) (h : (definition? ('#' :: '#' :: '!' :: '>' :: r)).isSome) :
    ∃ t, stripPrefix? b!"define" (dropWs r) = some t := by
  unfold definition? at h
  have : stripPrefix? startMarker ('#' :: '#' :: '!' :: '>' :: r) = some r := by simp [startMarker, stripPrefix?]
  rw [this] at h
  simp only at h
  split at h
  · simp at h
  · rename_i r1 hr1; exact ⟨r1, hr1⟩

/-- **C03 (unambiguous classification).** No line is claimed by two directive patterns: whichever order the
    pattern map is iterated in, `parseLine` classifies every line the same way. -/
theorem C03_classification_unambiguous (l : Bytes) : (claims l).length ≤ 1 := by
  unfold claims
  by_cases hfl : (flags? l).isSome
  · obtain ⟨v, hv⟩ := Option.isSome_iff_exists.mp hfl
    obtain ⟨r, rfl⟩ := valueLine_shape '+' l v hv
    have h1 := comment_false_of '+' r (by simp)
    simp [h1, include?, includeExcept?, definition?, prefix?, suffix?, valueLine?, startMarker, marker, stripPrefix?, hfl]
  · by_cases hpf : (prefix? l).isSome
    · obtain ⟨v, hv⟩ := Option.isSome_iff_exists.mp hpf
      obtain ⟨r, rfl⟩ := valueLine_shape '^' l v hv
      have h1 := comment_false_of '^' r (by simp)
      simp [h1, include?, includeExcept?, definition?, flags?, suffix?, valueLine?, startMarker, marker, stripPrefix?, hpf]
    · by_cases hsf : (suffix? l).isSome
      · obtain ⟨v, hv⟩ := Option.isSome_iff_exists.mp hsf
        obtain ⟨r, rfl⟩ := valueLine_shape '$' l v hv
        have h1 := comment_false_of '$' r (by simp)
        simp [h1, include?, includeExcept?, definition?, flags?, prefix?, valueLine?, startMarker, marker, stripPrefix?, hsf]
      · simp only [hfl, hpf, hsf, Bool.false_eq_true, if_false, List.append_nil]
        by_cases hin : (include? l).isSome
        · obtain ⟨r, rfl⟩ := gt_shape_of_include l hin
          have h1 := comment_false_of '>' r (by simp)
          obtain ⟨c, t, hk, hc⟩ := include_kw r hin
          have hnx : (includeExcept? ('#' :: '#' :: '!' :: '>' :: r)).isSome = false := by
            cases hx : (includeExcept? ('#' :: '#' :: '!' :: '>' :: r)).isSome with
            | false => rfl
            | true =>
              obtain ⟨t', ht'⟩ := includeExcept_kw r hx
              have e1 := (stripPrefix?_some_iff _ _ _).mp hk
              have e2 := (stripPrefix?_some_iff _ _ _).mp ht'
              rw [e1] at e2
              simp only [List.cons_append, List.nil_append, List.cons.injEq, true_and] at e2
              rw [e2.1] at hc
              simp [isWs] at hc
          have hnd : (definition? ('#' :: '#' :: '!' :: '>' :: r)).isSome = false := by
            cases hx : (definition? ('#' :: '#' :: '!' :: '>' :: r)).isSome with
            | false => rfl
            | true =>
              obtain ⟨t', ht'⟩ := definition_kw r hx
              have e1 := (stripPrefix?_some_iff _ _ _).mp hk
              have e2 := (stripPrefix?_some_iff _ _ _).mp ht'
              rw [e1] at e2
              simp at e2
          simp [h1, hin, hnx, hnd]
        · by_cases hix : (includeExcept? l).isSome
          · obtain ⟨r, rfl⟩ := gt_shape_of_includeExcept l hix
            have h1 := comment_false_of '>' r (by simp)
            obtain ⟨t, hk⟩ := includeExcept_kw r hix
            have hnd : (definition? ('#' :: '#' :: '!' :: '>' :: r)).isSome = false := by
              cases hx : (definition? ('#' :: '#' :: '!' :: '>' :: r)).isSome with
              | false => rfl
              | true =>
                obtain ⟨t', ht'⟩ := definition_kw r hx
                have e1 := (stripPrefix?_some_iff _ _ _).mp hk
                have e2 := (stripPrefix?_some_iff _ _ _).mp ht'
                rw [e1] at e2
                simp at e2
            simp [h1, hin, hix, hnd]
          · by_cases hdf : (definition? l).isSome
            · obtain ⟨r, rfl⟩ := gt_shape_of_definition l hdf
              have h1 := comment_false_of '>' r (by simp)
              simp [h1, hin, hix, hdf]
            · simp only [hin, hix, hdf, Bool.false_eq_true, if_false, List.append_nil]
              split <;> simp

/-- **C03 (definitions).** The names are collected by ranging over the map — in some order `ks'` — and sorted: the
    order in which both loops of `expandDefinitions` visit them is the same for every collection order. -/
theorem C03_definitions_visiting_order_fixed {ks ks' : List Bytes} (p : ks.Perm ks') : sortedOrd ks = sortedOrd ks' :=
  sortNames_perm_eq p

example : sortedOrd [b!"b", b!"a-1", b!"a", b!"B"] = [b!"B", b!"a", b!"a-1", b!"b"] := by decide

/-- the flag prefix does not depend on the order in which the flag set is iterated -/
theorem C03_flags_order_free (fl fl' : List Char) (h : ∀ c, c ∈ fl ↔ c ∈ fl') : Asm.sortFlags fl = Asm.sortFlags fl' :=
  C02_flags_order_free fl fl' h

/-- non-vacuity / regression witness of D01: the comment that mentions an include is a comment and nothing else -/
example : claims "##! x ##!> include inc".toList = ["comment"] ∧ claims "##!> include inc -- a b".toList = ["include"] ∧
    claims "##!> include-except a b".toList = ["include-except"] ∧ claims "##!> define n v".toList = ["definition"] ∧
    claims "##!+ is".toList = ["flags"] ∧ claims "foo".toList = [] := by
  decide

/-! ### the include-except line map -/

theorem map_fst_filter {α β} (p : α → Bool) (es : List (α × β)) :
    (es.filter (fun e => p e.1)).map Prod.fst = (es.map Prod.fst).filter p := by
  induction es with
  | nil => rfl
  | cons e es ih =>
    simp only [List.filter_cons, List.map_cons]
    split <;> simp [ih]

/-- **C03 (include-except is order-free).** `buildIncludeExceptString` copies the entries of a Go map (line ↦ index of
    its last occurrence, minus the excluded lines) into a slice in map iteration order and sorts the slice by index.
    Whatever order the map yields (`ord`: any permutation of the surviving entries) and whatever algorithm sorts
    (`sorted`: any permutation of `ord` that is ordered by index), the lines that come out are the include file's
    lines, each once at its last position, without the excluded ones — the model's `dedupLast` / `filter`. The reason
    is that the indices are pairwise distinct (`lastEntries_sorted`); a tie between two indices is exactly what would
    make the result depend on the iteration order. -/
theorem C03_include_except_order_free (ls : List Bytes) (excluded : List Bytes) (ord sorted : List (Bytes × Nat))
    (hord : ord.Perm ((lastEntries 0 ls).filter (fun e => !excluded.contains e.1)))
    (hperm : sorted.Perm ord) (hsorted : sorted.Pairwise (fun a b => a.2 ≤ b.2)) :
    sorted.map Prod.fst = (dedupLast ls).filter (fun l => !excluded.contains l) := by
  have hcanon : ((lastEntries 0 ls).filter (fun e => !excluded.contains e.1)).Pairwise (fun a b => a.2 < b.2) :=
    (lastEntries_sorted 0 ls).filter _
  have := eq_of_perm_sorted (fun e : Bytes × Nat => e.2) _ sorted (hord.symm.trans hperm.symm) hcanon hsorted
  rw [← this, ← lastEntries_fst 0 ls]
  exact map_fst_filter (fun l => !excluded.contains l) (lastEntries 0 ls)

/-- non-vacuity: with a repeated line the canonical entries have distinct, increasing indices -/
example : lastEntries 0 ["curl".toList, "wget".toList, "curl".toList, "nc".toList] =
    [("wget".toList, 1), ("curl".toList, 2), ("nc".toList, 3)] := by decide

end Crs.Props
