import Crs
open Crs

/-! The model driver: one request per line (`op hexarg…`), one response line.
    Only glue lives here: decoding, the table that stands for the regex engine, encoding. -/

abbrev JoinTable := List (List Bytes × Option Bytes)

def tableEngine (t : JoinTable) : Asm.Engine where
  join := fun q =>
    match t.find? (fun e => e.1 == q) with
    | some (_, some r) => .ok r
    | some (_, none) => .error .diag
    | none => .error (.need q)

def optResp (gs : Option (List Bytes)) : String :=
  match gs with
  | none => "ok 00"
  | some l => "ok 01" ++ String.join (l.map fun g => " " ++ toHexArg g)

def faultResp : Fault → String
  | .diag => "diag"
  | .runtime => "runtime"
  | .need q => "need" ++ String.join (q.map fun g => " " ++ toHexArg g)

def exceptResp (r : Except Fault Bytes) : String :=
  match r with
  | .ok out => "ok " ++ toHexArg out
  | .error e => faultResp e

def bytesLt : Bytes → Bytes → Bool
  | [], [] => false
  | [], _ :: _ => true
  | _ :: _, [] => false
  | a :: as, b :: bs => if a.toNat < b.toNat then true else if a.toNat > b.toNat then false else bytesLt as bs

def insertSorted (x : Bytes × Bytes) : List (Bytes × Bytes) → List (Bytes × Bytes)
  | [] => [x]
  | y :: ys => if bytesLt x.1 y.1 then x :: y :: ys else y :: insertSorted x ys

def sortVars (vs : List (Bytes × Bytes)) : List (Bytes × Bytes) := vs.foldr insertSorted []

/-- file triples `tag name content …` → Fs -/
def decodeFs : List Bytes → Parser.Fs
  | tag :: name :: content :: rest =>
    let fs := decodeFs rest
    if tag == ['e'] then { fs with exc := (name, content) :: fs.exc } else { fs with inc := (name, content) :: fs.inc }
  | _ => {}

/-- `path content …` pairs → tree -/
def decodeTree : List Bytes → Cli.Tree
  | p :: c :: rest => (p, c) :: decodeTree rest
  | _ => []

def treeResp (o : Cli.Outcome) : String :=
  "ok " ++ (if o.ok then "01" else "00") ++ String.join (o.tree.map fun (p, c) => " " ++ toHexArg p ++ " " ++ toHexArg c)

/-- scenario encoding for `updater.decide`: fields of a release are separated by U+001F, assets by U+001E inside -/
def parseVersion (b : Bytes) : Option Updater.Version :=
  if b == "none".toList then none
  else
    match splitCh '.' b with
    | [x, y, z, pre] => some ⟨Update.digitsVal x, Update.digitsVal y, Update.digitsVal z, pre == ['1']⟩
    | _ => none

def parseAssets : List Bytes → List Updater.Asset
  | name :: content :: avail :: rest => ⟨name, content, avail == ['1']⟩ :: parseAssets rest
  | _ => []

def parseRelease (b : Bytes) : Updater.Release :=
  match splitCh '\x1f' b with
  | ver :: draft :: pre :: assets => ⟨parseVersion ver, draft == ['1'], pre == ['1'], parseAssets assets⟩
  | _ => ⟨none, true, true, []⟩

/-- `<hex>  <name>` lines of a checksum file -/
def lookupChecksum (cs name : Bytes) : Option Bytes :=
  (scanLines cs).findSome? fun l =>
    match splitFirst? "  ".toList l with
    | some (h, n) => if n == name then some h else none
    | none => none

def containsSub (needle b : Bytes) : Bool := (splitFirst? needle b).isSome

def tailsOf {α} : List α → List (List α)
  | [] => [[]]
  | x :: xs => (x :: xs) :: tailsOf xs

def shellOf (b : Bytes) : Asm.Shell := if b == ['w'] then .windows else .unix

def respond (t : JoinTable) (op : String) (args : List Bytes) : String :=
  match op, args with
  | "pat.blockStart", [l] => optResp ((Pat.blockStart? l).map fun (a, b) => [a, b])
  | "pat.blockEnd", [l] => optResp (if Pat.blockEnd? l then some [] else none)
  | "pat.flags", [l] => optResp ((Pat.flags? l).map fun a => [a])
  | "pat.prefix", [l] => optResp ((Pat.prefix? l).map fun a => [a])
  | "pat.suffix", [l] => optResp ((Pat.suffix? l).map fun a => [a])
  | "pat.definition", [l] => optResp ((Pat.definition? l).map fun (a, b) => [a, b])
  | "pat.include", [l] => optResp ((Pat.include? l).map fun (a, b) => [a, b])
  | "pat.includeExcept", [l] => optResp ((Pat.includeExcept? l).map fun (a, b, c) => [a, b, c])
  | "pat.comment", [l] => optResp (if Pat.comment? l then some [] else none)
  | "pat.processorStart", [l] => optResp ((Pat.processorStart? l).map fun (a, b) => [a, b])
  | "pat.assembleInput", [l] => optResp ((Pat.assembleInput? l).map fun a => [a])
  | "pat.assembleOutput", [l] => optResp ((Pat.assembleOutput? l).map fun a => [a])
  | "pat.splitArgs", [l] => "ok" ++ String.join ((Pat.splitArgs l).map fun g => " " ++ toHexArg g)
  | "format.processLine", [l, ind] =>
    (match Format.processLine l ind.length with
     | some (l', n) => "ok " ++ toHexArg l' ++ " " ++ toHexArg (natToBytes n)
     | none => "diag")
  | "format.file", [b] => exceptResp (Format.formatFile b)
  | "renumber.processYaml", [ruleId, contents] => "ok " ++ toHexArg (Renumber.processYaml ruleId contents)
  | "copyright.updateRules", [v, y, c] => "ok " ++ toHexArg (Copyright.updateRules v y c)
  | "copyright.sub", [k, v, l] =>
    "ok " ++ toHexArg (match k with
      | ['1'] => Copyright.sub1 v l
      | ['2'] => Copyright.sub2 (Copyright.digitsOf v) l
      | ['3'] => Copyright.sub3 v l
      | ['4'] => Copyright.sub4 v l
      | ['5'] => Copyright.sub5 v l
      | _ => l)
  | "pass.useHexEscapes", [s] => "ok " ++ toHexArg (Passes.useHexEscapes s)
  | "pass.escapeDoublequotes", [s] => "ok " ++ toHexArg (Passes.escapeDoublequotes s)
  | "pass.useHexBackslashes", [s] => "ok " ++ toHexArg (Passes.useHexBackslashes s)
  | "pass.includeVerticalTabInSpaceClass", [s] => "ok " ++ toHexArg (Passes.includeVerticalTabInSpaceClass s)
  | "pass.dontUseFlagsForMetaCharacters", [s] => exceptResp (Passes.dontUseFlagsForMetaCharacters s)
  | "pass.removeOutermostNonCapturingGroup", [s] => exceptResp (Passes.removeOutermostNonCapturingGroup s)
  | "pass.cleanUp", [s] => exceptResp (Passes.cleanUp s)
  | "pass.findGroupBodyEnd", [s, i] =>
    (match Passes.findGroupBodyEnd s i.length with
     | .ok (e, alt) => "ok " ++ toHexArg (natToBytes e) ++ (if alt then " 01" else " 00")
     | .error e => faultResp e)
  | "cmdline.regexpStr", [sh, ev, suf, ns, input] =>
    "ok " ++ toHexArg (Asm.regexpStr ⟨ev, suf, ns⟩ input) ++ (if sh.isEmpty then "" else "")
  | "std.runeLen", [b] => "ok " ++ toHexArg (natToBytes (runeLen b))
  | "std.natToBytes", [b] => "ok " ++ toHexArg (natToBytes b.length)
  | "std.scanLines", [b] => "ok" ++ String.join ((scanLines b).map fun g => " " ++ toHexArg g)
  | "std.isBlank", [b] => "ok " ++ (if isBlank b then "01" else "00")
  | "parse.run", input :: files =>
    (match Parser.parse (decodeFs files) Parser.sortedOrd Parser.sortedOrd Parser.defaultFuel [] input with
     | .error e => faultResp e
     | .ok st =>
       "ok " ++ toHexArg st.out ++ " " ++ toHexArg (Asm.sortFlags st.flags) ++ " " ++
         toHexArg (unlines st.prefixes) ++ " " ++ toHexArg (unlines st.suffixes) ++ " " ++
         toHexArg (unlines ((sortVars st.vars).map fun (k, v) => k ++ '=' :: v)))
  | "parse.expand", src :: kvs =>
    let rec pairs : List Bytes → Parser.Vars
      | k :: v :: rest => (k, v) :: pairs rest
      | _ => []
    let vs := pairs kvs
    let (out, vs') := Parser.expandDefinitions (Parser.sortNames (vs.map Prod.fst)) (Parser.sortNames (vs.map Prod.fst)) src vs
    "ok " ++ toHexArg out ++ " " ++ toHexArg (unlines ((sortVars vs').map fun (k, v) => k ++ '=' :: v))
  | "parse.replaceSuffixes", [content, pairs] =>
    (match Parser.buildPairs pairs with
     | none => "diag"
     | some ps => "ok " ++ toHexArg (Parser.replaceSuffixes content ps))
  | "cli.formatAll", check :: lintPaths :: files =>
    let lp := splitCh '\n' lintPaths
    treeResp (Cli.formatAll (check == ['1']) (fun p => lp.contains p) (decodeTree files))
  | "cli.renumberAll", check :: files => treeResp (Cli.renumberAll (check == ['1']) (decodeTree files))
  | "cli.copyrightAll", v :: y :: files => treeResp (Cli.copyrightAll v y (decodeTree files))
  | "cli.generate", ue :: us :: un :: we :: ws :: wn :: arg :: files =>
    let r := Cli.generateCmd (tableEngine t) ⟨ue, us, un, we, ws, wn⟩ Parser.sortedOrd Parser.sortedOrd (decodeTree files) arg
    "ok " ++ (if r.ok then "01" else "00") ++ " " ++ toHexArg r.stdout
  | "cli.update", ue :: us :: un :: we :: ws :: wn :: arg :: files =>
    let r := Cli.updateCmd (tableEngine t) ⟨ue, us, un, we, ws, wn⟩ Parser.sortedOrd Parser.sortedOrd (decodeTree files) arg
    treeResp ⟨r.tree, r.ok⟩
  | "cli.compareAll", gh :: ue :: us :: un :: we :: ws :: wn :: files =>
    let tr := decodeTree files
    let r := Cli.compareAll (tableEngine t) ⟨ue, us, un, we, ws, wn⟩ Parser.sortedOrd Parser.sortedOrd (gh == ['1']) tr tr
    -- in GitHub mode an out-of-date rule is not named on stdout (only the closing ::error:: line is printed)
    "ok " ++ (if r.ok then "01" else "00") ++ " " ++ toHexArg (joinCh ',' r.unchanged) ++ " " ++
      toHexArg (if gh == ['1'] then [] else joinCh ',' r.changed)
  | "cli.compareOut", gh :: ue :: us :: un :: we :: ws :: wn :: arg :: files =>
    let r := CompareView.compareOut (tableEngine t) ⟨ue, us, un, we, ws, wn⟩ Parser.sortedOrd Parser.sortedOrd (gh == ['1']) (decodeTree files) arg
    "ok " ++ (if r.2 then "01" else "00") ++ " " ++ toHexArg r.1
  | "cli.compareAllOut", gh :: ue :: us :: un :: we :: ws :: wn :: files =>
    let r := CompareView.compareAllOut (tableEngine t) ⟨ue, us, un, we, ws, wn⟩ Parser.sortedOrd Parser.sortedOrd (gh == ['1']) (decodeTree files)
    "ok " ++ (if r.2 then "01" else "00") ++ " " ++ toHexArg r.1
  | "path.clean", [p] => "ok " ++ toHexArg (Path.clean p)
  | "path.join", elems => "ok " ++ toHexArg (Path.join elems)
  | "compare.view", [id, cur, gen] => "ok " ++ toHexArg (CompareView.changedText id cur gen)
  | "cli.compare", ue :: us :: un :: we :: ws :: wn :: arg :: files =>
    let r := Cli.compareCmd (tableEngine t) ⟨ue, us, un, we, ws, wn⟩ Parser.sortedOrd Parser.sortedOrd (decodeTree files) arg
    "ok " ++ (if r.ok then "01" else "00") ++ " " ++ toHexArg (joinCh ',' r.unchanged) ++ " " ++ toHexArg (joinCh ',' r.changed)
  | "cli.run", out :: cmd :: flags :: ver :: verOk :: year :: lintPaths :: ue :: us :: un :: we :: ws :: wn :: pos :: files =>
    -- out / ver: empty = not given, otherwise '=' followed by the value; pos: the positional arguments, each preceded by U+001F
    let optOf (b : Bytes) : Option Bytes := match b with | '=' :: v => some v | _ => none
    let command : Option Cli.Command :=
      if cmd == b!"generate" then some .generate else if cmd == b!"update" then some .update
      else if cmd == b!"compare" then some .compare else if cmd == b!"format" then some .format
      else if cmd == b!"renumber" then some .renumber else if cmd == b!"copyright" then some .copyright else none
    (match command with
     | none => "bad-op"
     | some c =>
       let lp := splitCh '\n' lintPaths
       let args := (splitCh (Char.ofNat 31) pos).drop 1
       -- standard input travels as a pseudo entry `<stdin>` of the file list (it is no file of the tree)
       let allFiles := decodeTree files
       let stdin := (Cli.lookup b!"<stdin>" allFiles).getD []
       let tree := allFiles.filter fun pb => pb.1 != b!"<stdin>"
       let inv : Cli.Invocation := { output := optOf out, cmd := c, args := args, all := flags.contains 'a', check := flags.contains 'c',
                                     version := optOf ver, year := year, stdin := stdin }
       match CompareView.runWithView (tableEngine t) ⟨ue, us, un, we, ws, wn⟩ Parser.sortedOrd Parser.sortedOrd (fun p => lp.contains p) (verOk == ['1']) inv tree with
       | none => "ok " ++ toHexArg b!"unmodelled"
       | some r => "ok " ++ (if r.ok then "01" else "00") ++ " " ++ toHexArg r.stdout ++
           String.join (r.tree.map fun (p, c) => " " ++ toHexArg p ++ " " ++ toHexArg c))
  | "cli.updateAll", ue :: us :: un :: we :: ws :: wn :: files =>
    let tr := decodeTree files
    treeResp (Cli.updateAll (tableEngine t) ⟨ue, us, un, we, ws, wn⟩ Parser.sortedOrd Parser.sortedOrd {} tr tr)
  | "update.apply", [c, id, k, re] => exceptResp (Update.updateRegex c id k.length re)
  | "update.read", [c, id, k] => exceptResp (Update.readCurrentRegex c id k.length)
  | "ruleid.parse", [a] =>
    (match Update.parseRuleId a with
     | .ok r => "ok " ++ toHexArg r.id ++ " " ++ toHexArg r.fileName ++ " " ++ toHexArg (natToBytes r.chainOffset)
     | .error e => faultResp e)
  | "updater.decide", running :: listOk :: digests :: rels =>
    -- `digests`: content U+001F digest U+001F … (SHA-256 computed by the harness; abstract in the model)
    let table := splitCh '\x1f' digests
    let rec find : List Bytes → Bytes → Bytes
      | c :: d :: rest, x => if c == x then d else find rest x
      | _, _ => []
    (match Updater.decideUpdate (find table) lookupChecksum (containsSub "linux_amd64".toList) (listOk == ['1']) (rels.map parseRelease) (parseVersion running) with
     | .install b => "ok " ++ toHexArg "install".toList ++ " " ++ toHexArg b
     | .upToDate => "ok " ++ toHexArg "uptodate".toList
     | .fail => "ok " ++ toHexArg "fail".toList)
  | "root.find", start :: roots =>
    -- paths are slash-separated, relative to the sandbox directory (itself a directory like any other, the outermost
    -- component here); the sandbox's own ancestors hold no root
    let comps (b : Bytes) : Root.Dir := ((splitCh '/' b).filter (fun c => !c.isEmpty)).reverse ++ [b!"SANDBOX"]
    -- every directory that exists: the start directory, `<root>/regex-assembly` for every listed root, and their parents
    -- (a component of the start path that is itself called regex-assembly makes its parent a root)
    let made : List Root.Dir := comps start :: roots.map (fun r => b!"regex-assembly" :: comps r)
    let dirs : List Root.Dir := made.flatMap tailsOf
    (match Root.findRoot (fun d => dirs.contains (b!"regex-assembly" :: d)) (comps start) with
     | some d => "ok " ++ toHexArg (joinCh '/' (d.reverse.drop 1))
     | none => "diag")
  | "gen.run", ue :: us :: un :: we :: ws :: wn :: input :: files =>
    exceptResp (Asm.generate (tableEngine t) (decodeFs files) ⟨ue, us, un, we, ws, wn⟩ Parser.sortedOrd Parser.sortedOrd input)
  | _, _ => "bad-op"

partial def loop (hin hout : IO.FS.Stream) (t : JoinTable) : IO Unit := do
  let line ← hin.getLine
  if line.isEmpty then return ()
  let toks := (line.trimAscii.toString.splitOn " ").filter (· ≠ "")
  match toks with
  | [] => hout.putStrLn "bad-op"; hout.flush; loop hin hout t
  | op :: rest =>
    match rest.mapM fromHex? with
    | none => hout.putStrLn "bad-hex"; hout.flush; loop hin hout t
    | some args =>
      if op == "join.addOk" then
        match args with
        | res :: q => hout.putStrLn "ok"; hout.flush; loop hin hout ((q, some res) :: t)
        | [] => hout.putStrLn "bad-op"; hout.flush; loop hin hout t
      else if op == "join.addErr" then
        hout.putStrLn "ok"; hout.flush; loop hin hout ((args, none) :: t)
      else if op == "join.reset" then
        hout.putStrLn "ok"; hout.flush; loop hin hout []
      else
        hout.putStrLn (respond t op args)
        hout.flush
        loop hin hout t

def main : IO Unit := do
  loop (← IO.getStdin) (← IO.getStdout) []
