import Crs
open Crs

/-- One request per line: `OP arg…` with hex-framed arguments; one response line. -/
def respond (op : String) (args : List Bytes) : String :=
  match op, args with
  | "renumber.processYaml", [ruleId, contents] => "ok " ++ toHexArg (Renumber.processYaml ruleId contents)
  | "copyright.updateRules", [v, y, c] => "ok " ++ toHexArg (Copyright.updateRules v y c)
  | "copyright.sub", [k, v, l] =>
    "ok " ++ toHexArg (match k with
      | ['1'] => Copyright.sub1 v l
      | ['2'] => Copyright.sub2 (Copyright.digitsOf v) l
      | ['3'] => Copyright.sub3 v l
      | ['4'] => Copyright.sub4 v l
      | ['5'] => Copyright.sub5 v l
      | _ => l)
  | "std.runeLen", [b] => "ok " ++ toHexArg (natToBytes (runeLen b))
  | "std.natToBytes", [b] => "ok " ++ toHexArg (natToBytes b.length)
  | "std.scanLines", [b] => "ok " ++ " ".intercalate ((scanLines b).map toHexArg)
  | "std.isBlank", [b] => "ok " ++ (if isBlank b then "01" else "00")
  | _, _ => "bad-op"

partial def loop (hin : IO.FS.Stream) (hout : IO.FS.Stream) : IO Unit := do
  let line ← hin.getLine
  if line.isEmpty then return ()
  let toks := (line.trimAscii.toString.splitOn " ").filter (· ≠ "")
  match toks with
  | [] => hout.putStrLn "bad-op"
  | op :: rest =>
    match rest.mapM fromHex? with
    | some args => hout.putStrLn (respond op args)
    | none => hout.putStrLn "bad-hex"
  hout.flush
  loop hin hout

def main : IO Unit := do
  loop (← IO.getStdin) (← IO.getStdout)
