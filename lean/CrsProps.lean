import CrsProps.C13
import CrsProps.C14
