import CrsProps.C13
import CrsProps.C14
import CrsProps.C09
