import CrsProps.C13
