#!/bin/bash
# Offline set-up: build the Lean development (model, proofs, driver) from the files on disk.
set -eu
cd "$(dirname "$(readlink -f "$0")")"
export GOFLAGS=-mod=mod GOPROXY=off GOSUMDB=off GOTOOLCHAIN=local
(cd lean && flock "$PWD/.lake.lock" lake build)
echo "setup: Lean development built"
